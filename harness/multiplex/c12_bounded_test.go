package multiplex

// C12 / C01 driver over BOUNDED connections: a Session pair joined by connections this driver owns
// on which a Write returns only when the peer's receive loop has taken the message (no buffering at
// all: the extreme case of a TCP connection whose socket buffers are full).  All other mux drivers
// use unbounded queues, so a writer never waits for the peer's receive loop there and every
// "lock held across a blocking send, needed by the receive path" cycle is invisible.
//
// Seams: per receiving side the driver can (H) let a receive loop take one message and park it
// holding that message, (N) stop the side's loops from taking anything (a peer that is slow to read:
// rate limiting, a busy machine), and release both.  Operations run on helper goroutines; after
// every token the driver waits for QUIESCENCE, read off runtime.Stack: every goroutine with a frame
// of this package on its stack (operations, receive loops) is in a wait state - no timing involved.
//
// input : <id> B <method> <nconn> <tok> ...
//   H:<side>:<0|1>   N:<side>:<0|1>                      seams (side = A|B, the RECEIVING side)
//   W:<side>:<sid>:<len>  F:<side>:<sid>:<len>  X:<side>:<sid>  Z:<side>  R:<side>:<sid>    operations
//   (three streams 1,2,3 are opened by A with a hello each before the script starts)
// output: <id> <tok-result> ... | final: ops=<i>:<d|b>:<detail>,.. loops=<in Read>/<alive> stuck=<where,..> closed=<A><B> held=<A><B>
//   per operation token: d:<result> (returned) or b:<wait state>@<innermost frame of this package> (blocked)

import (
	"bytes"
	"errors"
	"fmt"
	"io"
	"net"
	"runtime"
	"strconv"
	"strings"
	"sync"
	"testing"
	"time"
)

type c12BdMsg struct {
	data  []byte
	taken bool
	gone  bool
}

type c12BdNet struct {
	mu    sync.Mutex
	cond  *sync.Cond
	hold  [2]bool
	notak [2]bool
	held  [2]int
}

type c12BdEnd struct {
	n      *c12BdNet
	side   int // the session this end belongs to: 0 = A, 1 = B
	inq    []*c12BdMsg
	peer   *c12BdEnd
	closed bool
}

var errC12BdClosed = errors.New("c12bd: connection closed")

func (e *c12BdEnd) Write(b []byte) (int, error) {
	n := e.n
	n.mu.Lock()
	defer n.mu.Unlock()
	if e.closed || e.peer.closed {
		return 0, errC12BdClosed
	}
	m := &c12BdMsg{data: append([]byte(nil), b...)}
	e.peer.inq = append(e.peer.inq, m)
	n.cond.Broadcast()
	for !m.taken && !e.closed && !e.peer.closed {
		n.cond.Wait()
	}
	if !m.taken {
		m.gone = true
		return 0, errC12BdClosed
	}
	return len(b), nil
}

func (e *c12BdEnd) Read(p []byte) (int, error) {
	n := e.n
	n.mu.Lock()
	defer n.mu.Unlock()
	for {
		if e.closed {
			return 0, errC12BdClosed
		}
		for len(e.inq) > 0 && e.inq[0].gone {
			e.inq = e.inq[1:]
		}
		if !n.notak[e.side] && len(e.inq) > 0 {
			break
		}
		if e.peer.closed && len(e.inq) == 0 {
			return 0, io.EOF
		}
		n.cond.Wait()
	}
	m := e.inq[0]
	e.inq = e.inq[1:]
	m.taken = true
	k := copy(p, m.data)
	n.cond.Broadcast()
	if n.hold[e.side] {
		n.held[e.side]++
		for n.hold[e.side] && !e.closed {
			n.cond.Wait()
		}
		n.held[e.side]--
	}
	return k, nil
}

func (e *c12BdEnd) Close() error {
	e.n.mu.Lock()
	e.closed = true
	e.n.cond.Broadcast()
	e.n.mu.Unlock()
	return nil
}
func (e *c12BdEnd) LocalAddr() net.Addr                { return nil }
func (e *c12BdEnd) RemoteAddr() net.Addr               { return nil }
func (e *c12BdEnd) SetDeadline(t time.Time) error      { return nil }
func (e *c12BdEnd) SetReadDeadline(t time.Time) error  { return nil }
func (e *c12BdEnd) SetWriteDeadline(t time.Time) error { return nil }

// ---- quiescence ---------------------------------------------------------------------------
type c12BdG struct {
	id    int64
	state string
	where string // innermost frame of this package that is not the driver's
	inRd  bool   // parked in the driver connection's Read
	loop  bool   // a receive loop (switchboard.deplex)
}

var c12BdStackBuf = make([]byte, 8<<20)

func c12BdDump(self int64) (gs []c12BdG, moving bool) {
	n := runtime.Stack(c12BdStackBuf, true)
	for _, blk := range strings.Split(string(c12BdStackBuf[:n]), "\n\n") {
		if !strings.Contains(blk, "internal/multiplex.") {
			continue
		}
		lines := strings.Split(blk, "\n")
		var g c12BdG
		hd := lines[0]
		if !strings.HasPrefix(hd, "goroutine ") {
			continue
		}
		sp := strings.SplitN(hd[len("goroutine "):], " ", 2)
		g.id, _ = strconv.ParseInt(sp[0], 10, 64)
		if g.id == self {
			continue
		}
		if i := strings.Index(hd, "["); i >= 0 {
			g.state = strings.TrimSuffix(strings.SplitN(hd[i+1:], ",", 2)[0], "]:")
		}
		for _, ln := range lines[1:] {
			if strings.HasPrefix(ln, "\t") || strings.HasPrefix(ln, "created by") {
				continue
			}
			if strings.Contains(ln, "multiplex.(*c12BdEnd).Read") {
				g.inRd = true
			}
			if strings.Contains(ln, "multiplex.(*switchboard).deplex") {
				g.loop = true
			}
			if g.where == "" && strings.Contains(ln, "internal/multiplex.") && !strings.Contains(ln, "c12Bd") {
				w := ln[strings.Index(ln, "internal/multiplex.")+len("internal/multiplex."):]
				if k := strings.LastIndex(w, "("); k > 0 {
					w = w[:k]
				}
				g.where = w
			}
		}
		for _, p := range []string{"running", "runnable", "syscall", "copystack", "preempted", "GC ", "waiting"} {
			if strings.HasPrefix(g.state, p) {
				moving = true
			}
		}
		gs = append(gs, g)
	}
	return
}

func c12BdQuiesce(self int64) []c12BdG {
	for i := 0; ; i++ {
		gs, moving := c12BdDump(self)
		if !moving {
			return gs
		}
		if i > 50 {
			time.Sleep(50 * time.Microsecond)
		} else {
			runtime.Gosched()
		}
	}
}

func c12BdShort(state string) string {
	switch {
	case strings.Contains(state, "Mutex"), strings.HasPrefix(state, "semacquire"):
		return "lock"
	case strings.Contains(state, "Cond"):
		return "cond"
	case strings.HasPrefix(state, "chan"), strings.HasPrefix(state, "select"):
		return "chan"
	}
	return strings.ReplaceAll(state, " ", "_")
}

// ---- scenario -------------------------------------------------------------------------------
type c12BdOp struct {
	tok  string
	goid int64
	done bool
	res  string
	mu   sync.Mutex
}

func c12BdSide(s string) int {
	if s == "A" {
		return 0
	}
	return 1
}

func c12BdErr(err error) string {
	switch {
	case err == nil:
		return "ok"
	case errors.Is(err, ErrBrokenStream):
		return "brokenstream"
	case errors.Is(err, ErrBrokenSession):
		return "brokensession"
	case errors.Is(err, errRepeatStreamClosing), errors.Is(err, errRepeatSessionClosing):
		return "repeat"
	case errors.Is(err, io.EOF):
		return "eof"
	case errors.Is(err, errC12BdClosed):
		return "connclosed"
	}
	return "err"
}

type c12BdOnce struct {
	data []byte
	done bool
}

func (r *c12BdOnce) Read(p []byte) (int, error) {
	if r.done {
		return 0, io.EOF
	}
	r.done = true
	return copy(p, r.data), nil
}

func c12BdRun(fs []string) string {
	self := c02WinGoid()
	method, _ := strconv.Atoi(fs[2])
	nconn, _ := strconv.Atoi(fs[3])
	var key [32]byte
	for i := range key {
		key[i] = byte(i*13 + 2)
	}
	mk := func() Obfuscator {
		o, err := MakeObfuscator(byte(method), key)
		if err != nil {
			panic(err)
		}
		return o
	}
	net_ := &c12BdNet{}
	net_.cond = sync.NewCond(&net_.mu)
	var sesh [2]*Session
	for s := 0; s < 2; s++ {
		sesh[s] = MakeSession(1, SessionConfig{Obfuscator: mk(), MsgOnWireSizeLimit: 16401, InactivityTimeout: time.Hour})
	}
	var ends []*c12BdEnd
	for c := 0; c < nconn; c++ {
		a := &c12BdEnd{n: net_, side: 0}
		b := &c12BdEnd{n: net_, side: 1}
		a.peer, b.peer = b, a
		ends = append(ends, a, b)
		sesh[0].AddConnection(a)
		sesh[1].AddConnection(b)
	}
	defer func() {
		for _, e := range ends {
			e.Close()
		}
		net_.mu.Lock()
		net_.hold, net_.notak = [2]bool{}, [2]bool{}
		net_.cond.Broadcast()
		net_.mu.Unlock()
		// a wedged session may not be able to close: do not wait for it
		go sesh[0].Close()
		go sesh[1].Close()
	}()
	var handles [2]map[uint32]*Stream
	handles[0], handles[1] = map[uint32]*Stream{}, map[uint32]*Stream{}
	var ops []*c12BdOp
	start := func(tok string, f func() string) *c12BdOp {
		op := &c12BdOp{tok: tok}
		ready := make(chan int64)
		go func() {
			ready <- c02WinGoid()
			r := func() (r string) {
				defer func() {
					if e := recover(); e != nil {
						r = "PANIC:" + strings.ReplaceAll(fmt.Sprint(e), " ", "_")
					}
				}()
				return f()
			}()
			op.mu.Lock()
			op.res, op.done = r, true
			op.mu.Unlock()
		}()
		op.goid = <-ready
		ops = append(ops, op)
		return op
	}
	status := func(op *c12BdOp, gs []c12BdG) string {
		op.mu.Lock()
		defer op.mu.Unlock()
		if op.done {
			return "d:" + op.res
		}
		for _, g := range gs {
			if g.id == op.goid {
				return "b:" + c12BdShort(g.state) + "@" + g.where
			}
		}
		return "b:?"
	}
	// three streams, opened by A, each carrying a hello that B reads
	for i := 1; i <= 3; i++ {
		st, err := sesh[0].OpenStream()
		if err != nil {
			return fs[0] + " setup-failed"
		}
		handles[0][st.id] = st
		hello := []byte{'h', 'i', byte('0' + i)}
		op := start("hello", func() string { _, err := st.Write(hello); return c12BdErr(err) })
		c12BdQuiesce(self)
		// the set-up is not the subject of the scenario: nothing is held yet, so the hello must go through;
		// give a loaded machine time before calling it blocked
		for t := 0; t < 200; t++ {
			op.mu.Lock()
			dn := op.done
			op.mu.Unlock()
			if dn {
				break
			}
			time.Sleep(time.Millisecond)
			c12BdQuiesce(self)
		}
		if !op.done {
			return fs[0] + " setup-blocked"
		}
		select {
		case p := <-sesh[1].acceptCh:
			handles[1][p.id] = p
			buf := make([]byte, 16)
			n, _ := p.Read(buf)
			if !bytes.Equal(buf[:n], hello) {
				return fs[0] + " setup-hello-mismatch"
			}
		default:
			return fs[0] + " setup-no-stream"
		}
	}
	ops = nil
	var out []string
	for ti, tok := range fs[4:] {
		p := strings.Split(tok, ":")
		var op *c12BdOp
		switch p[0] {
		case "H", "N":
			s := c12BdSide(p[1])
			net_.mu.Lock()
			if p[0] == "H" {
				net_.hold[s] = p[2] == "1"
			} else {
				net_.notak[s] = p[2] == "1"
			}
			net_.cond.Broadcast()
			net_.mu.Unlock()
		case "W", "F", "X", "R":
			s := c12BdSide(p[1])
			sid, _ := strconv.Atoi(p[2])
			st := handles[s][uint32(sid)]
			if st == nil {
				out = append(out, "nostream")
				continue
			}
			switch p[0] {
			case "W":
				l, _ := strconv.Atoi(p[3])
				data := bytes.Repeat([]byte{byte('a' + ti%26)}, l)
				op = start(tok, func() string { n, err := st.Write(data); return fmt.Sprintf("%d:%s", n, c12BdErr(err)) })
			case "F":
				l, _ := strconv.Atoi(p[3])
				src := &c12BdOnce{data: bytes.Repeat([]byte{byte('a' + ti%26)}, l)}
				op = start(tok, func() string { n, err := st.ReadFrom(src); return fmt.Sprintf("%d:%s", n, c12BdErr(err)) })
			case "X":
				op = start(tok, func() string { return c12BdErr(st.Close()) })
			case "R":
				op = start(tok, func() string {
					buf := make([]byte, 65536)
					n, err := st.Read(buf)
					return fmt.Sprintf("%s:%s", vfHex(buf[:n]), c12BdErr(err))
				})
			}
		case "Z":
			s := c12BdSide(p[1])
			op = start(tok, func() string { return c12BdErr(sesh[s].Close()) })
		}
		gs := c12BdQuiesce(self)
		if op != nil {
			out = append(out, status(op, gs))
		} else {
			out = append(out, "-")
		}
	}
	gs := c12BdQuiesce(self)
	var os_ []string
	for i, op := range ops {
		os_ = append(os_, fmt.Sprintf("%d:%s", i, status(op, gs)))
	}
	inRd, alive := 0, 0
	var stuck []string
	for _, g := range gs {
		if g.loop {
			alive++
			if g.inRd {
				inRd++
			} else {
				stuck = append(stuck, c12BdShort(g.state)+"@"+g.where)
			}
		}
	}
	net_.mu.Lock()
	held := fmt.Sprintf("%d%d", net_.held[0], net_.held[1])
	net_.mu.Unlock()
	st := "-"
	if len(stuck) > 0 {
		st = strings.Join(stuck, ",")
	}
	return fmt.Sprintf("%s %s | ops=%s loops=%d/%d stuck=%s closed=%s%s held=%s", fs[0], strings.Join(out, " "), strings.Join(os_, ","),
		inRd, alive, st, vfB(sesh[0].IsClosed()), vfB(sesh[1].IsClosed()), held)
}

func TestVerifC12Bounded(t *testing.T) {
	sc, w, done := vfIO(t)
	defer done()
	for sc.Scan() {
		fs := vfFields(sc.Text())
		if len(fs) < 4 || fs[1] != "B" {
			continue
		}
		res := func() (res string) {
			defer func() {
				if e := recover(); e != nil {
					res = fs[0] + " PANIC:" + strings.ReplaceAll(fmt.Sprint(e), " ", "_")
				}
			}()
			return c12BdRun(fs)
		}()
		w.WriteString(res + "\n")
		w.Flush()
	}
}
