//go:build goexperiment.synctest

package multiplex

// C19 driver.
//
// (a) the library bucket against the model: juju/ratelimit with an injected clock
//     R <id> <rate> <cap>            -> <id> <q> <F> <cap> | <q> <F> <cap>     NewBucketWithRate (real clock) | ...AndClock
//     V <id> <rxRate> <txRate>       -> <id> rx=<q>,<F>,<cap> tx=<q>,<F>,<cap>   the real MakeValve
//     B <id> <rate> <cap> <op> ...   -> <id> <res> ...   A:<d> advance | T:<c> Take | M:<c>:<max> TakeMaxDuration | V Available
//                                       res: - | w<ns> | x | v<n>
//                                       W:<c> Wait and X:<c>:<max> WaitMaxDuration sleep on the injected clock (res w<slept ns> | x)
// (a') the real LimitedValve called directly (no session) under virtual time: the calls switchboard makes
//     L <id> <dir tx|rx> <rxRate> <txRate> C:<delay ns>:<n>:<count>:<gap ns> ...
//     every caller is a goroutine: waits <delay>, then <count> times valve.txWait(n) / rxWait(n) (through the
//     Valve interface) pausing <gap> after each return
//     -> <id> rx=<q>,<F>,<cap> tx=<q>,<F>,<cap> t0=<ns> | <time of the call>:<time of the return>:<n>:<caller> ...
// (b) real Sessions with a real LimitedValve (MakeValve) on an in-memory network under virtual time
//     S <id> <dir tx|rx> <rxRate> <txRate> <sessions> <conns per session> W:<session>:<size>:<count>:<gap ns>:<delay ns> ...
//     every writer opens its own stream on its session (tx: on the limited side A, rx: on the peer B),
//     waits <delay>, then writes <count> times <size> bytes pausing <gap> after each write.
//     -> <id> rx=<q>,<F>,<cap> tx=<q>,<F>,<cap> t0=<ns> shared=<0|1> | <t ns>:<n>:<session> ... | <wire sizes in order, per conn: c<i>=n,n,..>
//     tx: one event per conn.Write leaving side A (time-stamped when the message leaves the sender);
//     rx: one event per message at the moment side A's recvDataFromRemote starts processing it (after
//         deplex's rxWait; tapped at the AEAD Open inside deobfuscate; n = bytes on the wire = what rxWait
//         was charged); wire sizes = what B wrote per connection, in order.
//
// Sessions leave goroutines blocked in Read: the bubble cannot end, so the driver flushes and exits.

import (
	"bufio"
	"crypto/cipher"
	"fmt"
	"io"
	"net"
	"os"
	"reflect"
	"strconv"
	"strings"
	"sync"
	"syscall"
	"testing"
	"testing/synctest"
	"time"

	"github.com/juju/ratelimit"
)

type c19Clock struct{ now time.Time }

func (c *c19Clock) Now() time.Time        { return c.now }
func (c *c19Clock) Sleep(d time.Duration) { c.now = c.now.Add(d) }

func c19Params(tb *ratelimit.Bucket) string {
	v := reflect.ValueOf(tb).Elem()
	return fmt.Sprintf("%d,%d,%d", v.FieldByName("quantum").Int(), v.FieldByName("fillInterval").Int(), v.FieldByName("capacity").Int())
}

// ---- in-memory message-preserving connection -------------------------------------------------
type c19Half struct {
	mu     sync.Mutex
	cond   *sync.Cond
	q      [][]byte
	closed bool
}

func c19NewHalf() *c19Half { h := &c19Half{}; h.cond = sync.NewCond(&h.mu); return h }

type c19Conn struct {
	rd, wr *c19Half
	tap    func(n int) // called at Write, before the bytes become readable at the other end
}

func (c *c19Conn) Write(b []byte) (int, error) {
	if c.tap != nil {
		c.tap(len(b))
	}
	cp := append([]byte{}, b...)
	c.wr.mu.Lock()
	if c.wr.closed {
		c.wr.mu.Unlock()
		return 0, io.ErrClosedPipe
	}
	c.wr.q = append(c.wr.q, cp)
	c.wr.cond.Broadcast()
	c.wr.mu.Unlock()
	return len(b), nil
}

func (c *c19Conn) Read(b []byte) (int, error) {
	h := c.rd
	h.mu.Lock()
	defer h.mu.Unlock()
	for len(h.q) == 0 && !h.closed {
		h.cond.Wait()
	}
	if len(h.q) == 0 {
		return 0, io.EOF
	}
	n := copy(b, h.q[0])
	if n < len(h.q[0]) {
		h.q[0] = h.q[0][n:]
	} else {
		h.q = h.q[1:]
	}
	return n, nil
}

func (c *c19Conn) Close() error {
	for _, h := range []*c19Half{c.rd, c.wr} {
		h.mu.Lock()
		h.closed = true
		h.cond.Broadcast()
		h.mu.Unlock()
	}
	return nil
}
func (c *c19Conn) LocalAddr() net.Addr                { return &net.TCPAddr{} }
func (c *c19Conn) RemoteAddr() net.Addr               { return &net.TCPAddr{} }
func (c *c19Conn) SetDeadline(t time.Time) error      { return nil }
func (c *c19Conn) SetReadDeadline(t time.Time) error  { return nil }
func (c *c19Conn) SetWriteDeadline(t time.Time) error { return nil }

func c19Pipe() (*c19Conn, *c19Conn) {
	ab, ba := c19NewHalf(), c19NewHalf()
	return &c19Conn{rd: ba, wr: ab}, &c19Conn{rd: ab, wr: ba}
}

// AEAD wrapper: records the moment recvDataFromRemote starts processing a message (deobfuscate
// calls Open on the payload; the message on the wire is frameHeaderLength bytes longer)
type c19TapAEAD struct {
	cipher.AEAD
	onOpen func(n int)
}

func (a c19TapAEAD) Open(dst, nonce, ciphertext, additionalData []byte) ([]byte, error) {
	a.onOpen(len(ciphertext) + frameHeaderLength)
	return a.AEAD.Open(dst, nonce, ciphertext, additionalData)
}

type c19Event struct {
	t    int64
	n    int
	sess int
}

func c19Scenario(fs []string, w *bufio.Writer) {
	id, dir := fs[1], fs[2]
	rxRate, _ := strconv.ParseInt(fs[3], 10, 64)
	txRate, _ := strconv.ParseInt(fs[4], 10, 64)
	nsess, _ := strconv.Atoi(fs[5])
	nconn, _ := strconv.Atoi(fs[6])
	var key [32]byte
	for i := range key {
		key[i] = byte(i)
	}
	obfs, _ := MakeObfuscator(EncryptionMethodAES256GCM, key)
	t0 := time.Now().UnixNano()
	valve := MakeValve(rxRate, txRate) // the real valve: both buckets start now
	var mu sync.Mutex
	var events []c19Event
	wire := map[string][]int{}
	shared := true
	var as, bs []*Session
	done := make(chan struct{})
	expected := -1
	for s := 0; s < nsess; s++ {
		s := s
		obfsA := obfs
		if dir == "rx" {
			obfsA.payloadCipher = c19TapAEAD{AEAD: obfs.payloadCipher, onOpen: func(n int) {
				mu.Lock()
				events = append(events, c19Event{time.Now().UnixNano(), n, s})
				if len(events) == expected {
					close(done)
				}
				mu.Unlock()
			}}
		}
		a := MakeSession(uint32(s+1), SessionConfig{Obfuscator: obfsA, Valve: valve, InactivityTimeout: 1000 * time.Hour})
		b := MakeSession(uint32(s+1), SessionConfig{Obfuscator: obfs, InactivityTimeout: 1000 * time.Hour})
		if a.sb.valve != Valve(valve) {
			shared = false
		}
		for c := 0; c < nconn; c++ {
			ca, cb := c19Pipe()
			c := c
			if dir == "tx" {
				ca.tap = func(n int) {
					mu.Lock()
					events = append(events, c19Event{time.Now().UnixNano(), n, s})
					mu.Unlock()
				}
			} else {
				cb.tap = func(n int) {
					mu.Lock()
					k := fmt.Sprintf("c%d.%d", s, c)
					wire[k] = append(wire[k], n)
					mu.Unlock()
				}
			}
			a.AddConnection(ca)
			b.AddConnection(cb)
		}
		as, bs = append(as, a), append(bs, b)
	}
	var wg sync.WaitGroup
	frames := 0
	for _, tok := range fs[7:] {
		p := strings.Split(tok, ":")
		size, _ := strconv.Atoi(p[2])
		count, _ := strconv.Atoi(p[3])
		frames += count * ((size + as[0].maxStreamUnitWrite - 1) / as[0].maxStreamUnitWrite)
	}
	mu.Lock()
	expected = frames
	mu.Unlock()
	for _, tok := range fs[7:] {
		p := strings.Split(tok, ":")
		s, _ := strconv.Atoi(p[1])
		size, _ := strconv.Atoi(p[2])
		count, _ := strconv.Atoi(p[3])
		gap, _ := strconv.ParseInt(p[4], 10, 64)
		delay, _ := strconv.ParseInt(p[5], 10, 64)
		side := as
		if dir == "rx" {
			side = bs
		}
		st, err := side[s].OpenStream()
		if err != nil {
			panic(err)
		}
		wg.Add(1)
		go func() {
			defer wg.Done()
			time.Sleep(time.Duration(delay))
			buf := make([]byte, size)
			for i := 0; i < count; i++ {
				if _, err := st.Write(buf); err != nil {
					panic(fmt.Sprintf("write failed: %v", err))
				}
				time.Sleep(time.Duration(gap))
			}
		}()
	}
	if dir == "rx" {
		wg.Wait()
		<-done
	} else {
		wg.Wait()
	}
	mu.Lock()
	fmt.Fprintf(w, "%s rx=%s tx=%s t0=%d shared=%s |", id, c19Params(valve.rxtb), c19Params(valve.txtb), t0, vfB(shared))
	for _, e := range events {
		fmt.Fprintf(w, " %d:%d:%d", e.t, e.n, e.sess)
	}
	w.WriteString(" |")
	for s := 0; s < nsess; s++ {
		for c := 0; c < nconn; c++ {
			k := fmt.Sprintf("c%d.%d", s, c)
			if len(wire[k]) > 0 {
				strs := make([]string, len(wire[k]))
				for i, n := range wire[k] {
					strs[i] = strconv.Itoa(n)
				}
				fmt.Fprintf(w, " %s=%s", k, strings.Join(strs, ","))
			}
		}
	}
	w.WriteString("\n")
	mu.Unlock()
}

func c19Bucket(fs []string, w *bufio.Writer) {
	rate, _ := strconv.ParseInt(fs[2], 10, 64)
	capa, _ := strconv.ParseInt(fs[3], 10, 64)
	clk := &c19Clock{now: time.Unix(1000, 0)}
	tb := ratelimit.NewBucketWithRateAndClock(float64(rate), capa, clk)
	w.WriteString(fs[1])
	for _, op := range fs[4:] {
		p := strings.Split(op, ":")
		switch p[0] {
		case "A":
			d, _ := strconv.ParseInt(p[1], 10, 64)
			clk.now = clk.now.Add(time.Duration(d))
			w.WriteString(" -")
		case "T":
			c, _ := strconv.ParseInt(p[1], 10, 64)
			fmt.Fprintf(w, " w%d", int64(tb.Take(c)))
		case "M":
			c, _ := strconv.ParseInt(p[1], 10, 64)
			m, _ := strconv.ParseInt(p[2], 10, 64)
			d, ok := tb.TakeMaxDuration(c, time.Duration(m))
			if ok {
				fmt.Fprintf(w, " w%d", int64(d))
			} else {
				w.WriteString(" x")
			}
		case "V":
			fmt.Fprintf(w, " v%d", tb.Available())
		case "W":
			c, _ := strconv.ParseInt(p[1], 10, 64)
			before := clk.now
			tb.Wait(c)
			fmt.Fprintf(w, " w%d", int64(clk.now.Sub(before)))
		case "X":
			c, _ := strconv.ParseInt(p[1], 10, 64)
			m, _ := strconv.ParseInt(p[2], 10, 64)
			before := clk.now
			if tb.WaitMaxDuration(c, time.Duration(m)) {
				fmt.Fprintf(w, " w%d", int64(clk.now.Sub(before)))
			} else {
				w.WriteString(" x")
			}
		}
	}
	w.WriteString("\n")
}

// the valve alone: rxWait / txWait exactly as switchboard.deplex / switchboard.send call them
func c19ValveCalls(fs []string, w *bufio.Writer) {
	id, dir := fs[1], fs[2]
	rxRate, _ := strconv.ParseInt(fs[3], 10, 64)
	txRate, _ := strconv.ParseInt(fs[4], 10, 64)
	t0 := time.Now().UnixNano()
	lv := MakeValve(rxRate, txRate)
	var v Valve = lv
	type rec struct {
		req, rel int64
		n, who   int
	}
	var mu sync.Mutex
	var recs []rec
	var wg sync.WaitGroup
	for i, tok := range fs[5:] {
		p := strings.Split(tok, ":")
		if len(p) != 5 || p[0] != "C" {
			continue
		}
		delay, _ := strconv.ParseInt(p[1], 10, 64)
		n, _ := strconv.Atoi(p[2])
		count, _ := strconv.Atoi(p[3])
		gap, _ := strconv.ParseInt(p[4], 10, 64)
		i := i
		wg.Add(1)
		go func() {
			defer wg.Done()
			time.Sleep(time.Duration(delay))
			for k := 0; k < count; k++ {
				req := time.Now().UnixNano()
				if dir == "rx" {
					v.rxWait(n)
				} else {
					v.txWait(n)
				}
				rel := time.Now().UnixNano()
				mu.Lock()
				recs = append(recs, rec{req, rel, n, i})
				mu.Unlock()
				time.Sleep(time.Duration(gap))
			}
		}()
	}
	wg.Wait()
	fmt.Fprintf(w, "%s rx=%s tx=%s t0=%d |", id, c19Params(lv.rxtb), c19Params(lv.txtb), t0)
	for _, r := range recs {
		fmt.Fprintf(w, " %d:%d:%d:%d", r.req, r.rel, r.n, r.who)
	}
	w.WriteString("\n")
}

func TestVerifC19(t *testing.T) {
	in := os.Getenv("VERIF_IN")
	out := os.Getenv("VERIF_OUT")
	if in == "" || out == "" {
		t.Skip("VERIF_IN / VERIF_OUT not set")
	}
	data, err := os.ReadFile(in)
	if err != nil {
		t.Fatal(err)
	}
	fo, err := os.Create(out)
	if err != nil {
		t.Fatal(err)
	}
	w := bufio.NewWriterSize(fo, 1<<20)
	synctest.Run(func() {
		for _, line := range strings.Split(string(data), "\n") {
			fs := strings.Fields(line)
			if len(fs) < 2 {
				continue
			}
			switch fs[0] {
			case "R":
				rate, _ := strconv.ParseInt(fs[2], 10, 64)
				capa, _ := strconv.ParseInt(fs[3], 10, 64)
				a := ratelimit.NewBucketWithRate(float64(rate), capa)
				b := ratelimit.NewBucketWithRateAndClock(float64(rate), capa, &c19Clock{now: time.Unix(5, 0)})
				fmt.Fprintf(w, "%s %s | %s\n", fs[1], strings.ReplaceAll(c19Params(a), ",", " "), strings.ReplaceAll(c19Params(b), ",", " "))
			case "V":
				rx, _ := strconv.ParseInt(fs[2], 10, 64)
				tx, _ := strconv.ParseInt(fs[3], 10, 64)
				v := MakeValve(rx, tx)
				fmt.Fprintf(w, "%s rx=%s tx=%s\n", fs[1], c19Params(v.rxtb), c19Params(v.txtb))
			case "B":
				c19Bucket(fs, w)
			case "S":
				c19Scenario(fs, w)
			case "L":
				c19ValveCalls(fs, w)
			}
		}
		w.WriteString("# done\n")
		w.Flush()
		fo.Close()
		syscall.Exit(0)
	})
}
