package multiplex

// C04 driver, part B: real Sessions built by MakeSession with a CONFIGURED MsgOnWireSizeLimit,
// real Stream.Write / Stream.ReadFrom / Stream.Close / Session.Close traffic through a connection
// pair owned by the harness.  Every message the sessions hand to the connection is reported in
// hex, together with the sizes MakeSession derived, the return values of every call, the lengths
// of the buffers ReadFrom offered to its reader, the single bytes drawn from crypto/rand (they
// decide the padding and the length of the closing notices) and what the peer session's stream
// delivered.  Nothing here judges the output: the oracle is in tools/props/c04.py.
//
// input : <id> SESS <m> <key hex> <limit dec, may be <= 0> <unordered 0|1> <single-byte script hex> <seed dec> <op>...
//   W:<len>                 Stream.Write of c04Pattern(seed, opIndex, len)
//   R:<avail>:<n>,<n>,...   Stream.ReadFrom of a reader holding c04Pattern(seed, opIndex, avail) whose i-th Read
//                           returns at most n_i bytes (never more than it is offered), io.EOF afterwards
//   X                       Stream.Close
//   (then always: peer Session.Close = KS, own Session.Close = KC)
// output: <id> cfg=<limit>,<maxStreamUnitWrite>,<streamSendBufferSize>,<connReceiveBufferSize>
//         <op><i>=<n>|<end>|<msg hex>/<msg hex>..|<single bytes drawn, hex>|<lengths offered to the reader>
//         KS=.. KC=..  peer=<accepted 0|1>|<stream id>|<bytes>|<sha256>|<read sizes>|<how the reader ended>
//   end: ok | short (io.ErrShortBuffer) | eof | obfs:<text> | closed:<text> | err:<text> | panic:<text>

import (
	"crypto/rand"
	"crypto/sha256"
	"encoding/hex"
	"errors"
	"fmt"
	"io"
	"net"
	"strconv"
	"strings"
	"sync"
	"time"

	log "github.com/sirupsen/logrus"
)

// ---- crypto/rand stand-in: single-byte reads follow a script, everything else is splitmix ----
type c04Rand struct {
	mu     sync.Mutex
	det    c04Det
	script []byte
	pos    int
	single []byte // every single byte handed out since the last reset
}

func (r *c04Rand) Read(p []byte) (int, error) {
	r.mu.Lock()
	defer r.mu.Unlock()
	if len(p) == 1 && len(r.script) > 0 {
		p[0] = r.script[r.pos%len(r.script)]
		r.pos++
	} else {
		r.det.Read(p)
	}
	if len(p) == 1 {
		r.single = append(r.single, p[0])
	}
	return len(p), nil
}

func (r *c04Rand) take() []byte {
	r.mu.Lock()
	defer r.mu.Unlock()
	s := r.single
	r.single = nil
	return s
}

// ---- connection pair owned by the harness ------------------------------------------------------
type c04Addr struct{}

func (c04Addr) Network() string { return "c04" }
func (c04Addr) String() string  { return "c04" }

// One end.  Write hands ONE message to the peer end's queue (and logs it); Read returns the next
// message, or as much of it as fits the caller's buffer - the rest comes with the following Reads,
// the way a byte stream would deliver it.
type c04End struct {
	mu      sync.Mutex
	cond    *sync.Cond
	q       [][]byte
	rest    []byte
	waiting bool // a reader sits in Read with nothing to hand over
	closed  bool
	peer    *c04End
	sent    [][]byte
}

func c04Pair() (*c04End, *c04End) {
	a, b := &c04End{}, &c04End{}
	a.cond, b.cond = sync.NewCond(&a.mu), sync.NewCond(&b.mu)
	a.peer, b.peer = b, a
	return a, b
}

func (e *c04End) Write(b []byte) (int, error) {
	e.mu.Lock()
	if e.closed {
		e.mu.Unlock()
		return 0, io.ErrClosedPipe
	}
	cp := append([]byte(nil), b...)
	e.sent = append(e.sent, cp)
	e.mu.Unlock()
	p := e.peer
	p.mu.Lock()
	if !p.closed {
		p.q = append(p.q, cp)
		p.cond.Broadcast()
	}
	p.mu.Unlock()
	return len(b), nil
}

func (e *c04End) Read(p []byte) (int, error) {
	e.mu.Lock()
	defer e.mu.Unlock()
	for {
		if len(e.rest) > 0 {
			n := copy(p, e.rest)
			e.rest = e.rest[n:]
			return n, nil
		}
		if len(e.q) > 0 {
			m := e.q[0]
			e.q = e.q[1:]
			n := copy(p, m)
			e.rest = m[n:]
			return n, nil
		}
		if e.closed {
			return 0, io.EOF
		}
		e.waiting = true
		e.cond.Broadcast()
		e.cond.Wait()
		e.waiting = false
	}
}

func (e *c04End) Close() error {
	e.mu.Lock()
	e.closed = true
	e.cond.Broadcast()
	e.mu.Unlock()
	return nil
}

// everything written towards this end has been read AND processed: its reader is back in Read with
// nothing pending (deplex handles a message completely before it reads again), or the end is closed
func (e *c04End) waitIdle() {
	e.mu.Lock()
	for !(e.closed || (e.waiting && len(e.q) == 0 && len(e.rest) == 0)) {
		e.cond.Wait()
	}
	e.mu.Unlock()
}

func (e *c04End) sentCount() int {
	e.mu.Lock()
	defer e.mu.Unlock()
	return len(e.sent)
}

func (e *c04End) sentFrom(i int) [][]byte {
	e.mu.Lock()
	defer e.mu.Unlock()
	return append([][]byte(nil), e.sent[i:]...)
}

func (e *c04End) LocalAddr() net.Addr                { return c04Addr{} }
func (e *c04End) RemoteAddr() net.Addr               { return c04Addr{} }
func (e *c04End) SetDeadline(t time.Time) error      { return nil }
func (e *c04End) SetReadDeadline(t time.Time) error  { return nil }
func (e *c04End) SetWriteDeadline(t time.Time) error { return nil }

// ---- payloads and the scripted reader ------------------------------------------------------------
func c04Pattern(seed, op, n int) []byte {
	b := make([]byte, n)
	for j := range b {
		b[j] = byte(j*131 + op*17 + (j>>8)*7 + seed)
	}
	return b
}

type c04Reader struct {
	data    []byte
	sizes   []int
	offered []int
}

func (r *c04Reader) Read(p []byte) (int, error) {
	r.offered = append(r.offered, len(p))
	if len(r.sizes) == 0 || len(r.data) == 0 {
		return 0, io.EOF
	}
	n := r.sizes[0]
	r.sizes = r.sizes[1:]
	if n > len(p) {
		n = len(p)
	}
	if n > len(r.data) {
		n = len(r.data)
	}
	copy(p, r.data[:n])
	r.data = r.data[n:]
	return n, nil
}

func c04End2(err error, pan interface{}) string {
	clean := func(s string) string {
		s = strings.NewReplacer(" ", "_", "|", "_", "/", "_").Replace(s)
		if len(s) > 120 {
			s = s[:120]
		}
		return s
	}
	switch {
	case pan != nil:
		return "panic:" + clean(fmt.Sprint(pan))
	case err == nil:
		return "ok"
	case errors.Is(err, io.ErrShortBuffer):
		return "short"
	case err == io.EOF:
		return "eof"
	case strings.Contains(err.Error(), "payload cannot be empty") || strings.Contains(err.Error(), "obfs buffer too small"):
		return "obfs:" + clean(err.Error())
	case errors.Is(err, ErrBrokenStream) || errors.Is(err, ErrBrokenSession) || errors.Is(err, errRepeatSessionClosing) ||
		errors.Is(err, errRepeatStreamClosing) || errors.Is(err, errBrokenSwitchboard):
		return "closed:" + clean(err.Error())
	default:
		return "err:" + clean(err.Error())
	}
}

func c04Msgs(ms [][]byte) string {
	if len(ms) == 0 {
		return "-"
	}
	ss := make([]string, len(ms))
	for i, m := range ms {
		ss[i] = hex.EncodeToString(m)
	}
	return strings.Join(ss, "/")
}

func c04Ints(xs []int) string {
	if len(xs) == 0 {
		return "-"
	}
	ss := make([]string, len(xs))
	for i, x := range xs {
		ss[i] = strconv.Itoa(x)
	}
	return strings.Join(ss, ",")
}

// run f under recover; report n, how it ended, what `end` put on the wire meanwhile and the single bytes drawn
func c04Op(name string, end *c04End, rnd *c04Rand, extra func() string, f func() (int64, error)) string {
	from := end.sentCount()
	rnd.take()
	var n int64
	var err error
	var pan interface{}
	func() {
		defer func() { pan = recover() }()
		n, err = f()
	}()
	s := fmt.Sprintf("%s=%d|%s|%s|%s", name, n, c04End2(err, pan), c04Msgs(end.sentFrom(from)), vfHex(rnd.take()))
	if extra != nil {
		s += "|" + extra()
	}
	return s
}

func c04Sess(fs []string) string {
	log.SetOutput(io.Discard)
	m, _ := strconv.Atoi(fs[2])
	limit, _ := strconv.Atoi(fs[4])
	unordered := fs[5] == "1"
	seed, _ := strconv.Atoi(fs[7])
	rnd := &c04Rand{det: c04Det{s: uint64(seed)*0x9e3779b9 + 1}, script: vfUnhex(fs[6])}
	old := rand.Reader
	rand.Reader = io.Reader(rnd)
	defer func() { rand.Reader = old }()

	obfs, err := MakeObfuscator(byte(m), c04Key(fs[3]))
	if err != nil {
		return "cfg=err:makeobfuscator"
	}
	mk := func() *Session {
		return MakeSession(0, SessionConfig{Obfuscator: obfs, Unordered: unordered, MsgOnWireSizeLimit: limit,
			InactivityTimeout: time.Hour})
	}
	cl, sv := mk(), mk()
	ce, se := c04Pair()
	cl.AddConnection(ce)
	sv.AddConnection(se)
	out := []string{fmt.Sprintf("cfg=%d,%d,%d,%d", cl.MsgOnWireSizeLimit, cl.maxStreamUnitWrite, cl.streamSendBufferSize,
		cl.connReceiveBufferSize)}
	st, err := cl.OpenStream()
	if err != nil {
		return out[0] + " open=err"
	}
	for i, op := range fs[8:] {
		parts := strings.Split(op, ":")
		switch parts[0] {
		case "W":
			n, _ := strconv.Atoi(parts[1])
			data := c04Pattern(seed, i, n)
			out = append(out, c04Op(fmt.Sprintf("W%d", i), ce, rnd, nil, func() (int64, error) {
				k, e := st.Write(data)
				return int64(k), e
			}))
		case "R":
			avail, _ := strconv.Atoi(parts[1])
			rd := &c04Reader{data: c04Pattern(seed, i, avail)}
			for _, s := range strings.Split(parts[2], ",") {
				if s != "" && s != "-" {
					k, _ := strconv.Atoi(s)
					rd.sizes = append(rd.sizes, k)
				}
			}
			out = append(out, c04Op(fmt.Sprintf("R%d", i), ce, rnd, func() string { return c04Ints(rd.offered) },
				func() (int64, error) { return st.ReadFrom(rd) }))
		case "X":
			out = append(out, c04Op(fmt.Sprintf("X%d", i), ce, rnd, nil, func() (int64, error) { return 0, st.Close() }))
		}
	}
	// the peer: everything sent has been processed once its deplex is back in Read with nothing pending
	se.waitIdle()
	var peer *Stream
	select {
	case peer = <-sv.acceptCh:
	default:
	}
	type got struct {
		h     string
		n     int
		sizes []int
		end   string
	}
	done := make(chan got, 1)
	if peer != nil {
		go func() {
			var g got
			hs := sha256.New()
			buf := make([]byte, 1<<17)
			for {
				var k int
				var e error
				var pan interface{}
				func() {
					defer func() { pan = recover() }()
					k, e = peer.Read(buf)
				}()
				if k > 0 {
					hs.Write(buf[:k])
					g.n += k
					if unordered || len(g.sizes) < 4 {
						g.sizes = append(g.sizes, k)
					}
				}
				if e != nil || pan != nil {
					g.end = c04End2(e, pan)
					break
				}
			}
			g.h = hex.EncodeToString(hs.Sum(nil))
			done <- g
		}()
	}
	// closing the peer session closes the receive buffer of every stream: the reader drains what has arrived and ends
	out = append(out, c04Op("KS", se, rnd, nil, func() (int64, error) { return 0, sv.Close() }))
	if peer != nil {
		g := <-done
		out = append(out, fmt.Sprintf("peer=1|%d|%d|%s|%s|%s", peer.id, g.n, g.h, c04Ints(g.sizes), g.end))
	} else {
		out = append(out, "peer=0|-|0|-|-|-")
	}
	ce.waitIdle()
	out = append(out, c04Op("KC", ce, rnd, nil, func() (int64, error) { return 0, cl.Close() }))
	ce.Close()
	se.Close()
	return strings.Join(out, " ")
}
