package multiplex

// C13 stress driver (no lock-step): concurrent Write / ReadFrom / Close on the streams of one
// real Session whose only connection is a wire tap that decodes every message.  Run under the
// race detector.  For each trial it prints the emission log in wire order and what each writer
// did, for the oracle in tools/props/c13.py.
//
// input : <id> m=<method> streams=<n> writers=<n> readfroms=<n> calls=<n> close=<0|1> seed=<n>
// output: <id> F:<sid>:<seq>:<closing>:<tag-hex(8)>:<len> ... | W:<sid>:<tag-hex>:<bytes>:<ok>:<doneAt> ... | C:<sid>:<startAt>:<ok>

import (
	"encoding/binary"
	"fmt"
	"io"
	"math/rand"
	"net"
	"strconv"
	"strings"
	"sync"
	"sync/atomic"
	"testing"
	"time"
)

type c13Tap struct {
	mu   sync.Mutex
	dec  *Obfuscator
	log  []string
	dead chan struct{}
	once sync.Once
}

func (c *c13Tap) Read(b []byte) (int, error) { <-c.dead; return 0, io.EOF }
func (c *c13Tap) Write(b []byte) (int, error) {
	cp := append([]byte(nil), b...)
	var f Frame
	c.mu.Lock()
	defer c.mu.Unlock()
	if err := c.dec.deobfuscate(&f, cp); err != nil {
		c.log = append(c.log, "F:undecodable")
		return len(b), nil
	}
	tag := "-"
	if f.Closing == closingNothing && len(f.Payload) >= 8 {
		tag = fmt.Sprintf("%x", f.Payload[:8])
	}
	c.log = append(c.log, fmt.Sprintf("F:%d:%d:%d:%s:%d", f.StreamID, f.Seq, f.Closing, tag, len(f.Payload)))
	return len(b), nil
}
func (c *c13Tap) Close() error                       { c.once.Do(func() { close(c.dead) }); return nil }
func (c *c13Tap) LocalAddr() net.Addr                { return nil }
func (c *c13Tap) RemoteAddr() net.Addr               { return nil }
func (c *c13Tap) SetDeadline(t time.Time) error      { return nil }
func (c *c13Tap) SetReadDeadline(t time.Time) error  { return nil }
func (c *c13Tap) SetWriteDeadline(t time.Time) error { return nil }

type c13Chunks struct {
	chunks [][]byte
	i      int
}

func (r *c13Chunks) Read(b []byte) (int, error) {
	if r.i >= len(r.chunks) {
		return 0, io.EOF
	}
	n := copy(b, r.chunks[r.i])
	r.i++
	return n, nil
}

// payload: every 8-byte block is the tag (writer id, call index); the first block of every
// frame identifies the write it belongs to
func c13Payload(writer, call uint32, n int) []byte {
	b := make([]byte, n)
	var t [8]byte
	binary.BigEndian.PutUint32(t[0:4], writer)
	binary.BigEndian.PutUint32(t[4:8], call)
	for i := 0; i+8 <= n; i += 8 {
		copy(b[i:], t[:])
	}
	return b
}

func TestVerifC13(t *testing.T) {
	sc, w, done := vfIO(t)
	defer done()
	for sc.Scan() {
		fs := vfFields(sc.Text())
		if len(fs) < 2 {
			continue
		}
		kv := map[string]int{}
		for _, f := range fs[1:] {
			p := strings.SplitN(f, "=", 2)
			v, _ := strconv.Atoi(p[1])
			kv[p[0]] = v
		}
		var key [32]byte
		for i := range key {
			key[i] = byte(i + 1)
		}
		mk := func() Obfuscator { o, _ := MakeObfuscator(byte(kv["m"]), key); return o }
		dec := mk()
		tap := &c13Tap{dec: &dec, dead: make(chan struct{})}
		sesh := MakeSession(1, SessionConfig{Obfuscator: mk(), MsgOnWireSizeLimit: 605, InactivityTimeout: time.Hour})
		sesh.AddConnection(tap)
		rng := rand.New(rand.NewSource(int64(kv["seed"])))
		unit := sesh.maxStreamUnitWrite
		var clock int64
		var wg sync.WaitGroup
		var resMu sync.Mutex
		var res []string
		for si := 0; si < kv["streams"]; si++ {
			st, err := sesh.OpenStream()
			if err != nil {
				t.Fatal(err)
			}
			wid := uint32(0)
			for wi := 0; wi < kv["writers"]; wi++ {
				wid++
				id := uint32(si)<<16 | wid
				sizes := make([]int, kv["calls"])
				for i := range sizes {
					sizes[i] = 8 * (1 + rng.Intn(3*unit/8))
				}
				wg.Add(1)
				go func() {
					defer wg.Done()
					for call, n := range sizes {
						nw, err := st.Write(c13Payload(id, uint32(call), n))
						at := atomic.AddInt64(&clock, 1)
						resMu.Lock()
						res = append(res, fmt.Sprintf("W:%d:%08x%08x:%d:%s:%d", st.id, id, call, nw, vfB(err == nil), at))
						resMu.Unlock()
					}
				}()
			}
			for ri := 0; ri < kv["readfroms"]; ri++ {
				wid++
				id := uint32(si)<<16 | wid
				var chunks [][]byte
				for call := 0; call < kv["calls"]; call++ {
					chunks = append(chunks, c13Payload(id, uint32(call), 8*(1+rng.Intn(unit/8))))
				}
				wg.Add(1)
				go func() {
					defer wg.Done()
					n, _ := st.ReadFrom(&c13Chunks{chunks: chunks})
					at := atomic.AddInt64(&clock, 1)
					resMu.Lock()
					res = append(res, fmt.Sprintf("RF:%d:%08x:%d:%d", st.id, id, n, at))
					resMu.Unlock()
				}()
			}
			if kv["close"] == 1 {
				delay := time.Duration(rng.Intn(300)) * time.Microsecond
				wg.Add(1)
				go func() {
					defer wg.Done()
					time.Sleep(delay)
					at := atomic.AddInt64(&clock, 1)
					err := st.Close()
					resMu.Lock()
					res = append(res, fmt.Sprintf("C:%d:%d:%s", st.id, at, vfB(err == nil)))
					resMu.Unlock()
				}()
			}
		}
		wg.Wait()
		sesh.Close()
		tap.mu.Lock()
		w.WriteString(fs[0] + " " + strings.Join(tap.log, " ") + " | " + strings.Join(res, " ") + "\n")
		tap.mu.Unlock()
	}
}
