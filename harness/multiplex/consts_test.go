package multiplex

import (
	"fmt"
	"os"
	"testing"
)

// Prints package constants (evaluated by the Go compiler) for coq/Gen/Consts.v.
func TestVerifConsts(t *testing.T) {
	out := os.Getenv("VERIF_OUT")
	if out == "" {
		t.Skip()
	}
	f, _ := os.Create(out)
	defer f.Close()
	p := func(n string, v interface{}) { fmt.Fprintf(f, "%s %d\n", n, v) }
	p("mux_frameHeaderLength", frameHeaderLength)
	p("mux_salsa20NonceSize", salsa20NonceSize)
	p("mux_maxExtraLen", maxExtraLen)
	p("mux_padFirstNFrames", padFirstNFrames)
	p("mux_EncryptionMethodPlain", EncryptionMethodPlain)
	p("mux_EncryptionMethodAES256GCM", EncryptionMethodAES256GCM)
	p("mux_EncryptionMethodChaha20Poly1305", EncryptionMethodChaha20Poly1305)
	p("mux_EncryptionMethodAES128GCM", EncryptionMethodAES128GCM)
	p("mux_closingNothing", closingNothing)
	p("mux_closingStream", closingStream)
	p("mux_closingSession", closingSession)
	p("mux_acceptBacklog", acceptBacklog)
	p("mux_defaultInactivityTimeout_ns", int64(defaultInactivityTimeout))
	p("mux_defaultMaxOnWireSize", defaultMaxOnWireSize)
	p("mux_recvBufferSizeLimit", recvBufferSizeLimit)
	var key [32]byte
	obfs, _ := MakeObfuscator(EncryptionMethodPlain, key)
	s := MakeSession(0, SessionConfig{Obfuscator: obfs, MsgOnWireSizeLimit: 16401})
	p("mux_connReceiveBufferSize", s.connReceiveBufferSize)
	p("mux_maxStreamUnitWrite_16401", s.maxStreamUnitWrite)
	p("mux_streamSendBufferSize_16401", s.streamSendBufferSize)
	s0 := MakeSession(0, SessionConfig{Obfuscator: obfs})
	p("mux_default_MsgOnWireSizeLimit", s0.MsgOnWireSizeLimit)
	p("mux_default_maxStreamUnitWrite", s0.maxStreamUnitWrite)
	p("mux_default_InactivityTimeout_ns", int64(s0.InactivityTimeout))
	for m, name := range map[byte]string{EncryptionMethodAES256GCM: "aes256gcm", EncryptionMethodAES128GCM: "aes128gcm", EncryptionMethodChaha20Poly1305: "chacha20poly1305"} {
		o, err := MakeObfuscator(m, key)
		if err != nil {
			t.Fatal(err)
		}
		p("mux_overhead_"+name, o.payloadCipher.Overhead())
		p("mux_noncesize_"+name, o.payloadCipher.NonceSize())
	}
}
