//go:build verif

package multiplex

// C12 schedule-point replays (races that lock-step labels cannot place):
//  open-vs-close : OpenStream parked after its closed-check, the session is closed meanwhile
//  timer-vs-recv : the inactivity check runs while a peer-opened stream is being registered
// output: <trial> <verdict tokens>

import (
	"fmt"
	"os"
	"testing"
	"time"
)

func TestVerifC12Hooks(t *testing.T) {
	out := os.Getenv("VERIF_OUT")
	if out == "" {
		t.Skip()
	}
	fo, _ := os.Create(out)
	defer fo.Close()
	var key [32]byte
	for trial := 0; trial < 4; trial++ {
		obfs, _ := MakeObfuscator(byte(trial), key)
		// ---- open-vs-close
		sesh := MakeSession(1, SessionConfig{Obfuscator: obfs, MsgOnWireSizeLimit: 16401, InactivityTimeout: time.Hour})
		sesh.AddConnection(&c01Sink{dead: make(chan struct{})})
		parked := make(chan struct{})
		release := make(chan struct{})
		first := true
		SetVerifHook(func(p string) {
			if p == "OpenStream.checked" && first {
				first = false
				close(parked)
				<-release
			}
		})
		type res struct {
			st  *Stream
			err error
		}
		rc := make(chan res, 1)
		go func() { st, err := sesh.OpenStream(); rc <- res{st, err} }()
		<-parked
		sesh.Close()
		close(release)
		r := <-rc
		SetVerifHook(nil)
		verdict := "refused"
		if r.err == nil {
			// the stream exists on a closed session: its reader must not be left blocked
			done := make(chan struct{})
			go func() { r.st.Read(make([]byte, 1)); close(done) }()
			select {
			case <-done:
				verdict = "opened-read-returns"
			case <-time.After(300 * time.Millisecond):
				verdict = "opened-read-blocked-forever"
			}
		}
		fmt.Fprintf(fo, "open%d %s\n", trial, verdict)

		// ---- timer-vs-recv
		a := MakeSession(1, SessionConfig{Obfuscator: obfs, MsgOnWireSizeLimit: 16401, InactivityTimeout: time.Hour})
		b := MakeSession(1, SessionConfig{Obfuscator: obfs, MsgOnWireSizeLimit: 16401, InactivityTimeout: time.Hour})
		b.AddConnection(&c01Sink{dead: make(chan struct{})})
		buf := make([]byte, 16401)
		f := &Frame{StreamID: 7, Seq: 0, Payload: []byte{1, 2, 3}}
		n, _ := a.obfuscate(f, buf, 0)
		fired := false
		SetVerifHook(func(p string) {
			if p == "recv.registered" && !fired {
				fired = true
				b.checkTimeout() // the inactivity timer goes off exactly now
			}
		})
		b.recvDataFromRemote(buf[:n])
		SetVerifHook(nil)
		b.streamsM.Lock()
		st := b.streams[7]
		b.streamsM.Unlock()
		v := "session-stays-up"
		if b.IsClosed() {
			v = "closed-by-timer-with-registered-stream"
		}
		_ = st
		fmt.Fprintf(fo, "timer%d %s\n", trial, v)
		a.Close()
		b.Close()
	}
}
