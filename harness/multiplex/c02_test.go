package multiplex

// C02 driver: replays event lists on the real streamBuffer.
// input : <id> <base hex> W:<seq hex>:<closing>:<payload hex> | R:<k> | C ...
// output: <id> w<toBeClosed><err> | r:<hex> | rE | rF | c

import (
	"strconv"
	"strings"
	"testing"
)

func TestVerifC02(t *testing.T) {
	sc, w, done := vfIO(t)
	defer done()
	scratch := make([]byte, 0, 1<<16) // reused receive buffer: payloads alias it, as in deplex
	for sc.Scan() {
		fs := vfFields(sc.Text())
		if len(fs) < 2 {
			continue
		}
		base, _ := strconv.ParseUint(fs[1], 16, 64)
		sb := NewStreamBuffer()
		sb.nextRecvSeq = base
		w.WriteString(fs[0])
		for _, ev := range fs[2:] {
			p := strings.Split(ev, ":")
			switch p[0] {
			case "W":
				seq, _ := strconv.ParseUint(p[1], 16, 64)
				pl := vfUnhex(p[3])
				scratch = append(scratch[:0], pl...)
				f := &Frame{StreamID: 1, Seq: seq, Payload: scratch}
				if p[2] == "1" {
					f.Closing = closingStream
				}
				tbc, err := sb.Write(f)
				for i := range scratch { // the receive buffer is reused by the next read
					scratch[i] = 0xEE
				}
				w.WriteString(" w" + vfB(tbc) + vfB(err != nil))
			case "R":
				k, _ := strconv.Atoi(p[1])
				sb.buf.rwCond.L.Lock()
				empty := sb.buf.buf.Len() == 0
				closed := sb.buf.closed
				sb.buf.rwCond.L.Unlock()
				if empty && !closed {
					w.WriteString(" rE")
					break
				}
				buf := make([]byte, k)
				n, err := sb.Read(buf)
				if err != nil {
					w.WriteString(" rF")
				} else {
					w.WriteString(" r:" + vfHex(buf[:n]))
				}
			case "C":
				sb.Close()
				w.WriteString(" c")
			}
		}
		w.WriteString("\n")
	}
}
