package multiplex

// C14 driver, part A: replays op sequences on the real datagramBufferedPipe (white box: the
// length queue and the closed flag are inspected under the pipe's lock so that a read that
// would block is reported as "rE" instead of blocking).
// input : <id> P W:<closing 0|1>:<payload hex> | R:<k> | C ...
// output: <id> wS|wC|wP|w?.. | r:<hex>|rF|rS|rE|r?.. | c ... i:<len pLens>:<buf.Len()>:<closed>
// Part B (session level) is in c14_sess_test.go; both are run by TestVerifC14.

import (
	"io"
	"strconv"
	"strings"
	"testing"
)

func c14Pipe(fs []string, w interface{ WriteString(string) (int, error) }) {
	d := NewDatagramBufferedPipe()
	scratch := make([]byte, 0, 1<<16) // reused receive buffer: payloads alias it, as in deplex
	w.WriteString(fs[0])
	for _, ev := range fs[2:] {
		p := strings.Split(ev, ":")
		switch p[0] {
		case "W":
			pl := vfUnhex(p[2])
			scratch = append(scratch[:0], pl...)
			f := &Frame{StreamID: 1, Payload: scratch}
			if p[1] == "1" {
				f.Closing = closingStream
			}
			tbc, err := d.Write(f)
			for i := range scratch { // the receive buffer is reused by the next conn.Read
				scratch[i] = 0xEE
			}
			switch {
			case !tbc && err == nil:
				w.WriteString(" wS")
			case tbc && err == nil:
				w.WriteString(" wC")
			case tbc && err == io.ErrClosedPipe:
				w.WriteString(" wP")
			default:
				w.WriteString(" w?" + vfB(tbc))
			}
		case "R":
			k, _ := strconv.Atoi(p[1])
			d.rwCond.L.Lock()
			empty := len(d.pLens) == 0
			closed := d.closed
			d.rwCond.L.Unlock()
			if empty && !closed {
				w.WriteString(" rE")
				break
			}
			buf := make([]byte, k)
			n, err := d.Read(buf)
			switch {
			case err == nil:
				w.WriteString(" r:" + vfHex(buf[:n]))
			case err == io.EOF && n == 0:
				w.WriteString(" rF")
			case err == io.ErrShortBuffer && n == 0:
				w.WriteString(" rS")
			default:
				w.WriteString(" r?" + strconv.Itoa(n))
			}
		case "C":
			d.Close()
			w.WriteString(" c")
		}
	}
	d.rwCond.L.Lock()
	w.WriteString(" i:" + strconv.Itoa(len(d.pLens)) + ":" + strconv.Itoa(d.buf.Len()) + ":" + vfB(d.closed))
	d.rwCond.L.Unlock()
	w.WriteString("\n")
}

func TestVerifC14(t *testing.T) {
	sc, w, done := vfIO(t)
	defer done()
	for sc.Scan() {
		fs := vfFields(sc.Text())
		if len(fs) < 2 {
			continue
		}
		switch fs[1] {
		case "P":
			c14Pipe(fs, w)
		case "N":
			c14Session(t, fs, w)
		}
	}
}
