package multiplex

// C11 at the level of the RECEIVE LOOP (switchboard.deplex): a real Session whose connections are
// TLSConns over byte streams this driver owns.  Valid frames and garbage of every kind are written
// to the connections as records; after every batch the driver waits until every receive loop is
// back in Read with nothing left to consume (or has given up and closed its connection) and
// observes: session closed?, Close calls on the connections, streams that appeared, bytes/datagrams
// readable per stream, streams closed, frames the session sent on its own.
//
// input : <id> L <method 0..3> <unordered 0|1> <nconn> <tok> ...
//   V:<conn>:<sid>:<seq>:<closing 0|1>:<payload hex>      a valid frame of the peer
//   R:<conn>:<hex>                                        raw bytes as one record ("-" = empty record)
//   T:<conn>:<keep>:<sid>:<seq>:<payload hex>             a valid frame cut to its first <keep> bytes
//   F:<conn>:<bit>:<sid>:<seq>:<payload hex>              a valid frame with one bit flipped
//   H:<conn>:<bit 0..15>:<sid>:<seq>:<payload hex>        a valid frame with one bit of header bytes 12-13 flipped (still authenticates)
//   P:<conn>:<keep>:<sid>:<seq>:<payload hex>             a record whose header announces a valid frame but whose body ends after <keep> bytes: the connection drops there
//   K:<conn>:<sid>:<seq>:<payload hex>                    a valid frame sealed under another key
//   Q                                                     settle and observe
// output: <id> q:<closed>:<closeCalls>:<sent>:<sid>=<data|-><.|!>,... per Q
//   data: ordered = hex of everything readable; unordered = datagrams joined by "/"; "!" = end of stream reached

import (
	"fmt"
	"io"
	"net"
	"sort"
	"strconv"
	"strings"
	"sync"
	"testing"
	"time"

	"github.com/cbeuw/Cloak/internal/common"
)

type c11LoopConn struct {
	mu         sync.Mutex
	cond       *sync.Cond
	buf        []byte
	closed     bool
	closeCalls int
	waiting    bool // the reader is parked in Read with nothing to consume
	sawEOF     bool // the reader has been told that the connection is over
	sent       int
}

func newC11LoopConn() *c11LoopConn {
	c := &c11LoopConn{}
	c.cond = sync.NewCond(&c.mu)
	return c
}

func (c *c11LoopConn) Read(p []byte) (int, error) {
	c.mu.Lock()
	defer c.mu.Unlock()
	for len(c.buf) == 0 && !c.closed {
		c.waiting = true
		c.cond.Broadcast()
		c.cond.Wait()
	}
	c.waiting = false
	if len(c.buf) == 0 {
		c.sawEOF = true
		c.cond.Broadcast()
		return 0, io.EOF
	}
	n := copy(p, c.buf)
	c.buf = c.buf[n:]
	return n, nil
}

func (c *c11LoopConn) Write(p []byte) (int, error) {
	c.mu.Lock()
	c.sent++
	c.mu.Unlock()
	return len(p), nil
}

func (c *c11LoopConn) Close() error {
	c.mu.Lock()
	c.closed = true
	c.closeCalls++
	c.cond.Broadcast()
	c.mu.Unlock()
	return nil
}

// shut ends the scenario without counting as a Close by the session
func (c *c11LoopConn) shut() {
	c.mu.Lock()
	c.closed = true
	c.cond.Broadcast()
	c.mu.Unlock()
}

func (c *c11LoopConn) feed(record []byte) {
	c.mu.Lock()
	c.buf = append(c.buf, record...)
	c.cond.Broadcast()
	c.mu.Unlock()
}

// settle: the receive loop has consumed everything and is back in Read, or the connection is closed
func (c *c11LoopConn) settle() {
	c.mu.Lock()
	for !((c.closed && c.sawEOF) || (c.waiting && len(c.buf) == 0)) {
		c.cond.Wait()
	}
	c.mu.Unlock()
}

func (c *c11LoopConn) LocalAddr() net.Addr                { return nil }
func (c *c11LoopConn) RemoteAddr() net.Addr               { return nil }
func (c *c11LoopConn) SetDeadline(t time.Time) error      { return nil }
func (c *c11LoopConn) SetReadDeadline(t time.Time) error  { return nil }
func (c *c11LoopConn) SetWriteDeadline(t time.Time) error { return nil }

func c11LoopRecord(body []byte) []byte {
	return append([]byte{common.ApplicationData, 3, 3, byte(len(body) >> 8), byte(len(body))}, body...)
}

func c11LoopRun(fs []string) string {
	method, _ := strconv.Atoi(fs[2])
	unordered := fs[3] == "1"
	nconn, _ := strconv.Atoi(fs[4])
	var key, other [32]byte
	for i := range key {
		key[i] = byte(i*11 + 5)
		other[i] = byte(i*11 + 6)
	}
	mk := func(k [32]byte) Obfuscator {
		o, err := MakeObfuscator(byte(method), k)
		if err != nil {
			panic(err)
		}
		return o
	}
	cfg := SessionConfig{Obfuscator: mk(key), Unordered: unordered, MsgOnWireSizeLimit: 16401, InactivityTimeout: time.Hour}
	sesh := MakeSession(1, cfg)
	peer, foreign := mk(key), mk(other)
	conns := make([]*c11LoopConn, nconn)
	for i := range conns {
		conns[i] = newC11LoopConn()
		sesh.AddConnection(common.NewTLSConn(conns[i]))
	}
	defer func() {
		for _, c := range conns {
			c.shut()
		}
	}()
	frame := func(o *Obfuscator, sid, seq, closing, pl string) []byte {
		s, _ := strconv.ParseUint(sid, 10, 32)
		q, _ := strconv.ParseUint(seq, 10, 64)
		f := &Frame{StreamID: uint32(s), Seq: q, Payload: vfUnhex(pl)}
		if closing == "1" {
			f.Closing = closingStream
		}
		buf := make([]byte, 16401)
		n, err := o.obfuscate(f, buf, 0)
		if err != nil {
			panic(err)
		}
		return buf[:n]
	}
	handles := map[uint32]*Stream{}
	shutAny := false
	var out []string
	for _, tok := range fs[5:] {
		p := strings.Split(tok, ":")
		ci := 0
		if len(p) > 1 {
			ci, _ = strconv.Atoi(p[1])
		}
		switch p[0] {
		case "V":
			conns[ci].feed(c11LoopRecord(frame(&peer, p[2], p[3], p[4], p[5])))
		case "R":
			conns[ci].feed(c11LoopRecord(vfUnhex(p[2])))
		case "T":
			keep, _ := strconv.Atoi(p[2])
			f := frame(&peer, p[3], p[4], "0", p[5])
			if keep >= len(f) { // always cut at least one byte off
				keep = len(f) - 1
			}
			f = f[:keep]
			conns[ci].feed(c11LoopRecord(f))
		case "F":
			bit, _ := strconv.Atoi(p[2])
			f := frame(&peer, p[3], p[4], "0", p[5])
			bit %= len(f) * 8
			if bit/8 == 12 || bit/8 == 13 { // the two header bytes outside the AEAD (known finding): take the next byte
				bit = 14*8 + bit%8
			}
			f[bit/8] ^= 1 << (bit % 8)
			conns[ci].feed(c11LoopRecord(f))
		case "P":
			// a record cut short by a connection drop: the header announces the whole frame, only <keep> bytes of
			// the body arrive, then the connection ends.  What was received is not a message: nothing of it may be
			// handed to the session.
			keep, _ := strconv.Atoi(p[2])
			f := frame(&peer, p[3], p[4], "0", p[5])
			rec := c11LoopRecord(f)
			if keep >= len(f) {
				keep = len(f) - 1
			}
			conns[ci].feed(rec[:5+keep])
			conns[ci].shut()
			shutAny = true
		case "H":
			// one bit of the two header bytes that lie outside the AEAD (closing flag, extra length): the frame still
			// authenticates (known finding F3) and is acted upon - whatever it then means, it must not crash the process
			bit, _ := strconv.Atoi(p[2])
			f := frame(&peer, p[3], p[4], "0", p[5])
			bit %= 16
			f[12+bit/8] ^= 1 << (bit % 8)
			conns[ci].feed(c11LoopRecord(f))
		case "K":
			conns[ci].feed(c11LoopRecord(frame(&foreign, p[2], p[3], "0", p[4])))
		case "Q":
			for _, c := range conns {
				c.settle()
			}
			if shutAny {
				// a dropped connection takes the session down; whatever its receive loop did with its last read
				// has been done by then
				for dl := time.Now().Add(3 * time.Second); !sesh.IsClosed() && time.Now().Before(dl); {
					time.Sleep(200 * time.Microsecond)
				}
			}
			for {
				var st *Stream
				select {
				case st = <-sesh.acceptCh:
				default:
				}
				if st == nil {
					break
				}
				handles[st.id] = st
			}
			cc, sent := 0, 0
			for _, c := range conns {
				c.mu.Lock()
				cc += c.closeCalls
				sent += c.sent
				c.mu.Unlock()
			}
			var ids []int
			for id := range handles {
				ids = append(ids, int(id))
			}
			sort.Ints(ids)
			var ss []string
			for _, id := range ids {
				st := handles[uint32(id)]
				var parts []string
				end := "."
				for i := 0; i < 1000; i++ {
					// only read what is there: a Read on an empty open stream would block
					empty, closed := true, false
					switch rb := st.recvBuf.(type) {
					case *streamBuffer:
						rb.buf.rwCond.L.Lock()
						empty, closed = rb.buf.buf.Len() == 0, rb.buf.closed
						rb.buf.rwCond.L.Unlock()
					case *datagramBufferedPipe:
						rb.rwCond.L.Lock()
						empty, closed = len(rb.pLens) == 0, rb.closed
						rb.rwCond.L.Unlock()
					}
					if empty {
						if closed {
							end = "!"
						}
						break
					}
					buf := make([]byte, 70000)
					n, err := st.Read(buf)
					if err != nil {
						end = "!"
						break
					}
					parts = append(parts, vfHex(buf[:n]))
				}
				data := "-"
				if len(parts) > 0 {
					if unordered {
						data = strings.Join(parts, "/")
					} else {
						data = strings.ReplaceAll(strings.Join(parts, ""), "-", "")
					}
				}
				ss = append(ss, fmt.Sprintf("%d=%s%s", id, data, end))
			}
			out = append(out, fmt.Sprintf("q:%s:%d:%d:%s", vfB(sesh.IsClosed()), cc, sent, strings.Join(ss, ",")))
		}
	}
	return fs[0] + " " + strings.Join(out, " ")
}

func TestVerifC11Loop(t *testing.T) {
	sc, w, done := vfIO(t)
	defer done()
	for sc.Scan() {
		fs := vfFields(sc.Text())
		if len(fs) < 5 || fs[1] != "L" {
			continue
		}
		res := func() (res string) {
			defer func() {
				if e := recover(); e != nil {
					res = fs[0] + " PANIC:" + strings.ReplaceAll(fmt.Sprint(e), " ", "_")
				}
			}()
			return c11LoopRun(fs)
		}()
		w.WriteString(res + "\n")
		w.Flush() // one line per finished case: if the process dies inside a case, the case is the first one without a line
	}
}
