package server

// C18 driver (server part): users are created through the real API router, then each one
// "connects" (real userPanel.GetUser + ActiveUser.GetSession in the dispatcher's order, under
// recover), is listed, uses some bytes and has the usage uploaded by the real
// updateUsageQueue + commitUpdate -> UploadStatus.  Any panic is reported as PANIC:<where>:<msg>.
// Line format: see /verif/ocaml/c18_driver.ml.

import (
	"bufio"
	"bytes"
	"encoding/base64"
	"encoding/hex"
	"encoding/json"
	"fmt"
	"io"
	"net/http"
	"net/http/httptest"
	"os"
	"path/filepath"
	"sort"
	"strconv"
	"strings"
	"testing"
	"time"

	"github.com/cbeuw/Cloak/internal/common"
	mux "github.com/cbeuw/Cloak/internal/multiplex"
	"github.com/cbeuw/Cloak/internal/server/usermanager"
	log "github.com/sirupsen/logrus"
)

func c18Unhex(s string) []byte {
	if s == "-" || s == "" {
		return []byte{}
	}
	b, err := hex.DecodeString(s)
	if err != nil {
		panic("bad hex " + s)
	}
	return b
}

func c18Hex(b []byte) string {
	if len(b) == 0 {
		return "-"
	}
	return hex.EncodeToString(b)
}

func c18Sanitize(s string) string {
	return strings.Map(func(r rune) rune {
		if r == ' ' || r == '\n' || r == '\t' {
			return '_'
		}
		return r
	}, s)
}

func c18Err(err error) string {
	switch err {
	case usermanager.ErrUserNotFound:
		return "notfound"
	case usermanager.ErrNoUpCredit:
		return "noup"
	case usermanager.ErrNoDownCredit:
		return "nodown"
	case usermanager.ErrUserExpired:
		return "expired"
	case usermanager.ErrSessionsCapReached:
		return "cap"
	}
	// server.ErrBadRate (commit 638655d); matched by text so that the driver still builds when that fix is reverted
	if strings.Contains(err.Error(), "rate") {
		return "badrate"
	}
	return "other?" + c18Sanitize(err.Error())
}

func c18ShowUser(m map[string]interface{}) (uid string, vals string) {
	uid = "?"
	if s, ok := m["UID"].(string); ok {
		if b, err := base64.StdEncoding.DecodeString(s); err == nil {
			uid = c18Hex(b)
		}
	} else if m["UID"] == nil {
		uid = "-"
	}
	var vs []string
	for _, k := range []string{"SessionsCap", "UpRate", "DownRate", "UpCredit", "DownCredit", "ExpiryTime"} {
		switch v := m[k].(type) {
		case json.Number:
			vs = append(vs, v.String())
		case nil:
			vs = append(vs, "_")
		default:
			vs = append(vs, "?")
		}
	}
	return uid, strings.Join(vs, ",")
}

func c18HTTP(router http.Handler, method, path string, body []byte, kind byte) string {
	var rd io.Reader
	if body != nil {
		rd = bytes.NewReader(body)
	}
	req, err := http.NewRequest(method, path, rd)
	if err != nil {
		return "BADREQ"
	}
	rr := httptest.NewRecorder()
	router.ServeHTTP(rr, req)
	if rr.Code != 200 || (kind != 'G' && kind != 'L') {
		return "s" + strconv.Itoa(rr.Code)
	}
	dec := json.NewDecoder(bytes.NewReader(rr.Body.Bytes()))
	dec.UseNumber()
	if kind == 'G' {
		var m map[string]interface{}
		if err := dec.Decode(&m); err != nil {
			return "s200:badjson"
		}
		u, v := c18ShowUser(m)
		return "u:" + u + ":" + v
	}
	var l []map[string]interface{}
	if err := dec.Decode(&l); err != nil {
		return "s200:badjson"
	}
	var es []string
	for _, m := range l {
		u, v := c18ShowUser(m)
		es = append(es, u+"="+v)
	}
	sort.Strings(es)
	return "l:" + strings.Join(es, ";")
}

func c18SeshConfig() mux.SessionConfig {
	var key [32]byte
	for i := range key {
		key[i] = byte(i)
	}
	obfuscator, _ := mux.MakeObfuscator(mux.EncryptionMethodPlain, key)
	return mux.SessionConfig{Obfuscator: obfuscator, Valve: nil, Unordered: false}
}

func c18Try(f func()) (msg string) {
	defer func() {
		if r := recover(); r != nil {
			msg = c18Sanitize(fmt.Sprint(r))
			if msg == "" {
				msg = "panic"
			}
		}
	}()
	f()
	return ""
}

// the dispatcher's order: GetUser, GetSession (CloseSession on error); then use, upload, close
func c18Connect(panel *userPanel, uid []byte, rx, tx int64) string {
	var user *ActiveUser
	var err error
	if p := c18Try(func() { user, err = panel.GetUser(uid) }); p != "" {
		return "PANIC:getuser:" + p
	}
	if err != nil {
		return "c:autherr:" + c18Err(err)
	}
	var serr error
	if p := c18Try(func() { _, _, serr = user.GetSession(1, c18SeshConfig()) }); p != "" {
		return "PANIC:getsession:" + p
	}
	if serr != nil {
		if p := c18Try(func() { user.CloseSession(1, ""); _ = panel.commitUpdate() }); p != "" {
			return "PANIC:closesession:" + p
		}
		return "c:sesserr:" + c18Err(serr)
	}
	user.valve.AddRx(rx)
	user.valve.AddTx(tx)
	if p := c18Try(func() { panel.updateUsageQueue(); err = panel.commitUpdate() }); p != "" {
		return "PANIC:upload:" + p
	}
	if err != nil {
		return "c:uploaderr:" + c18Sanitize(err.Error())
	}
	active := panel.isActive(uid)
	if p := c18Try(func() {
		if active {
			user.CloseSession(1, "")
		}
		_ = panel.commitUpdate()
	}); p != "" {
		return "PANIC:flush:" + p
	}
	if panel.isActive(uid) {
		return "c:stillactive"
	}
	if active {
		return "c:ok:1"
	}
	return "c:ok:0"
}

func TestVerifC18(t *testing.T) {
	in := os.Getenv("VERIF_IN")
	out := os.Getenv("VERIF_OUT")
	if in == "" || out == "" {
		t.Skip("VERIF_IN / VERIF_OUT not set")
	}
	fi, err := os.Open(in)
	if err != nil {
		t.Fatal(err)
	}
	defer fi.Close()
	fo, err := os.Create(out)
	if err != nil {
		t.Fatal(err)
	}
	defer fo.Close()
	sc := bufio.NewScanner(fi)
	sc.Buffer(make([]byte, 1<<20), 1<<28)
	w := bufio.NewWriterSize(fo, 1<<20)
	defer w.Flush()
	log.SetOutput(io.Discard)
	dir := t.TempDir()
	n := 0
	for sc.Scan() {
		fs := strings.Fields(sc.Text())
		if len(fs) < 2 {
			continue
		}
		n++
		now, _ := strconv.ParseInt(fs[1], 10, 64)
		path := filepath.Join(dir, fmt.Sprintf("db%d", n))
		mgr, err := usermanager.MakeLocalManager(path, common.WorldOfTime(time.Unix(now, 0)))
		if err != nil {
			t.Fatal(err)
		}
		router := usermanager.APIRouterOf(mgr)
		// MakeUserPanel without its never-ending upload goroutine
		panel := &userPanel{
			Manager:          mgr,
			activeUsers:      make(map[[16]byte]*ActiveUser),
			usageUpdateQueue: make(map[[16]byte]*usagePair),
			uploadInterval:   defaultUploadInterval,
		}
		w.WriteString(fs[0])
		for _, op := range fs[2:] {
			p := strings.Split(op, "|")
			var obs string
			if msg := c18Try(func() {
				switch p[0] {
				case "L":
					obs = c18HTTP(router, "GET", "/admin/users", nil, 'L')
				case "G":
					obs = c18HTTP(router, "GET", "/admin/users/"+string(c18Unhex(p[1])), nil, 'G')
				case "P":
					obs = c18HTTP(router, "POST", "/admin/users/"+string(c18Unhex(p[1])), c18Unhex(p[3]), 'P')
				case "D":
					obs = c18HTTP(router, "DELETE", "/admin/users/"+string(c18Unhex(p[1])), nil, 'D')
				case "C":
					rx, _ := strconv.ParseInt(p[2], 10, 64)
					tx, _ := strconv.ParseInt(p[3], 10, 64)
					obs = c18Connect(panel, c18Unhex(p[1]), rx, tx)
				case "V":
					rx, _ := strconv.ParseInt(p[1], 10, 64)
					tx, _ := strconv.ParseInt(p[2], 10, 64)
					if m := c18Try(func() { mux.MakeValve(rx, tx) }); m != "" {
						obs = "VPANIC:" + m
					} else {
						obs = "v:ok"
					}
				default:
					obs = "BADOP"
				}
			}); msg != "" {
				obs = "PANIC:api:" + msg
			}
			w.WriteString(" " + obs)
			if strings.HasPrefix(obs, "PANIC") {
				break
			}
			_ = obs
		}
		w.WriteString("\n")
		mgr.Close()
		os.Remove(path)
	}
}
