package server

// C19 driver (server side): one valve per active user, handed to every session of that user.
// Real userPanel.GetUser / ActiveUser.GetSession with a real local manager on a temporary bolt
// database.  Output (VERIF_OUT), one line per check:
//   shared <uid idx> <n sessions> same=<0|1>         every session's Valve is the user's valve (pointer identity)
//   again  <uid idx> same=<0|1>                      a repeated GetSession / GetUser returns the same objects
//   users  distinct=<0|1>                            two users do not share a valve
//   rates  <uid idx> up=<UpRate> down=<DownRate> rxcap=<capacity of rx bucket> txcap=<capacity of tx bucket>

import (
	"fmt"
	"os"
	"reflect"
	"testing"
	"time"

	"github.com/cbeuw/Cloak/internal/common"
	mux "github.com/cbeuw/Cloak/internal/multiplex"
	"github.com/cbeuw/Cloak/internal/server/usermanager"
)

func c19Cap(v mux.Valve, field string) int64 {
	rv := reflect.ValueOf(v)
	if rv.Kind() != reflect.Ptr || rv.Elem().Kind() != reflect.Struct {
		return -1
	}
	f := rv.Elem().FieldByName(field)
	if !f.IsValid() || f.IsNil() {
		return -1
	}
	return f.Elem().FieldByName("capacity").Int()
}

func TestVerifC19Shared(t *testing.T) {
	out := os.Getenv("VERIF_OUT")
	if out == "" {
		t.Skip("VERIF_OUT not set")
	}
	fo, err := os.Create(out)
	if err != nil {
		t.Fatal(err)
	}
	defer fo.Close()
	tmp, _ := os.CreateTemp("", "c19_user_info")
	tmp.Close()
	defer os.Remove(tmp.Name())
	world := common.WorldOfTime(time.Unix(1000, 0))
	mgr, err := usermanager.MakeLocalManager(tmp.Name(), world)
	if err != nil {
		t.Fatal(err)
	}
	defer mgr.Close()
	panel := MakeUserPanel(mgr)
	rates := [][2]int64{{1000, 5000}, {50000, 7000}, {123456, 1000000}}
	var users []*ActiveUser
	var key [32]byte
	obfs, _ := mux.MakeObfuscator(mux.EncryptionMethodPlain, key)
	for i, r := range rates {
		uid := make([]byte, 16)
		uid[0] = byte(i + 1)
		err := mgr.WriteUserInfo(usermanager.UserInfo{UID: uid, SessionsCap: usermanager.JustInt32(10),
			UpRate: usermanager.JustInt64(r[0]), DownRate: usermanager.JustInt64(r[1]),
			UpCredit: usermanager.JustInt64(1 << 40), DownCredit: usermanager.JustInt64(1 << 40), ExpiryTime: usermanager.JustInt64(1 << 40)})
		if err != nil {
			t.Fatal(err)
		}
		u, err := panel.GetUser(uid)
		if err != nil {
			t.Fatal(err)
		}
		users = append(users, u)
		same := true
		var sess []*mux.Session
		for sid := uint32(1); sid <= 4; sid++ {
			s, existing, err := u.GetSession(sid, mux.SessionConfig{Obfuscator: obfs, InactivityTimeout: time.Hour})
			if err != nil || existing {
				t.Fatalf("GetSession: %v existing=%v", err, existing)
			}
			if s.Valve != u.valve {
				same = false
			}
			sess = append(sess, s)
		}
		for a := range sess {
			for b := range sess {
				if sess[a].Valve != sess[b].Valve {
					same = false
				}
			}
		}
		fmt.Fprintf(fo, "shared %d %d same=%s\n", i, len(sess), c19B(same))
		s1, existing, _ := u.GetSession(1, mux.SessionConfig{Obfuscator: obfs})
		u2, _ := panel.GetUser(uid)
		fmt.Fprintf(fo, "again %d same=%s\n", i, c19B(existing && s1 == sess[0] && u2 == u && s1.Valve == u.valve))
		fmt.Fprintf(fo, "rates %d up=%d down=%d rxcap=%d txcap=%d\n", i, r[0], r[1], c19Cap(u.valve, "rxtb"), c19Cap(u.valve, "txtb"))
	}
	fmt.Fprintf(fo, "users distinct=%s\n", c19B(users[0].valve != users[1].valve && users[1].valve != users[2].valve))
	fmt.Fprintf(fo, "# done\n")
}

func c19B(b bool) string {
	if b {
		return "1"
	}
	return "0"
}
