package server

// C16 driver: the lock-step engine of c17_common_test.go with traffic-heavy scenarios (bytes go
// through the real switchboard: deplex -> AddRx, send -> AddTx, on in-memory connections that
// count what they carry), plus one run of the real regularQueueUpload loop on a short interval.
//
//   !timer  ->  #timer charged_up=<n> charged_down=<n> counted_up=<n> counted_down=<n> rounds_seen=<0|1>

import (
	"fmt"
	"testing"
	"time"
)

func vfC16Timer(dir string) string {
	r, err := vfC17NewRig(dir, "timer", 1000, "1:2:100000:100000:2000")
	if err != nil {
		return "#timer err=" + err.Error()
	}
	// the panel as MakeUserPanel builds it, with a short interval, and the real upload loop
	r.panel.uploadInterval = 25 * time.Millisecond
	go r.panel.regularQueueUpload()
	r.step("D1.1")
	r.step("T0.1234.77")
	s := r.ses(0)
	if s == nil {
		return "#timer err=no-session"
	}
	var up, down int64
	seen := false
	for i := 0; i < 400; i++ {
		time.Sleep(10 * time.Millisecond)
		info, err := r.manager.GetUserInfo(vfC17UID(1))
		if err != nil {
			continue
		}
		up = 100000 - *info.UpCredit
		down = 100000 - *info.DownCredit
		if up != 0 || down != 0 {
			seen = true
			// one more interval: nothing may be charged twice
			time.Sleep(120 * time.Millisecond)
			info, _ = r.manager.GetUserInfo(vfC17UID(1))
			up = 100000 - *info.UpCredit
			down = 100000 - *info.DownCredit
			break
		}
	}
	s.conn.mu.Lock()
	cu, cd := s.conn.readN, s.conn.written
	s.conn.mu.Unlock()
	return fmt.Sprintf("#timer charged_up=%d charged_down=%d counted_up=%d counted_down=%d rounds_seen=%s", up, down, cu, cd, vfC17B(seen))
}

func TestVerifC16(t *testing.T) {
	vfC17RunFile(t, func(dir, line string) string {
		if line == "!timer" {
			return vfC16Timer(dir)
		}
		return "#unknown " + line
	})
}
