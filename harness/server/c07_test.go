package server

// C07 driver.  VERIF_MODE=gen : as C09 (genuine first packets from the client package)
//              VERIF_MODE=run : JSON lines, first the states {"state":..}, then the cases
//                 {"id","st","now","kind":"tls"|"ws","pkt":hex}
//   per case: (1) the real AuthFirstPacket on the packet (fresh State)
//             (2) the real dispatchConnection on a peer that sends the packet and then stays silent (fresh State):
//                 handshake reply (session; admin vs proxy told apart by the dispatch.gotUser schedule point),
//                 relay to the redirect target, close, or drop
//             (3) the tables the extracted model needs (X25519 results, http/base64 black box)

import (
	crand "crypto/rand"
	"encoding/json"
	"fmt"
	"io"
	"os"
	"strings"
	"sync/atomic"
	"testing"
	"time"

	log "github.com/sirupsen/logrus"
)

type vfC07Case struct {
	ID   string    `json:"id"`
	St   string    `json:"st"`
	Now  int64     `json:"now"`
	Kind string    `json:"kind"`
	Pkt  string    `json:"pkt"`
	Cfg  *vfC07Cfg `json:"cfg"` // when set: the State comes from the real InitState on this RawConfig (c07_init_test.go)
}

func vfC07CryptoRead(p []byte) (int, error) { return crand.Read(p) }

func vfC07Exact(b []byte) []byte { // cap == len, as the model assumes
	r := make([]byte, len(b))
	copy(r, b)
	return r
}

func TestVerifC07(t *testing.T) {
	sc, w, done := vfC09Open(t)
	defer done()
	defer vfC09Cleanup()
	log.SetOutput(io.Discard)
	log.SetLevel(log.PanicLevel)
	if os.Getenv("VERIF_MODE") == "gen" {
		vfC09Gen(t, sc, w)
		return
	}
	vfC09QuickSession = true
	var gotUser int32
	SetVerifHook(func(point string) {
		if point == "dispatch.gotUser" {
			atomic.AddInt32(&gotUser, 1)
		}
	})
	defer SetVerifHook(nil)
	facs := map[string]*vfC09StateFactory{}
	for sc.Scan() {
		ln := strings.TrimSpace(sc.Text())
		if ln == "" {
			continue
		}
		if strings.HasPrefix(ln, `{"state"`) {
			var sp vfC09StateSpec
			if err := json.Unmarshal([]byte(ln), &sp); err != nil {
				t.Fatalf("bad state %q: %v", ln, err)
			}
			f, err := vfC09MakeFactory(sp)
			if err != nil {
				t.Fatal(err)
			}
			facs[sp.Name] = f
			continue
		}
		var c vfC07Case
		if err := json.Unmarshal([]byte(ln), &c); err != nil {
			t.Fatalf("bad case %q: %v", ln, err)
		}
		fac := facs[c.St]
		initDesc := ""
		if c.Cfg != nil {
			cfg := c.Cfg
			sta0, ierr := cfg.initState(c.Now, vfC07TempDir())
			initDesc = " | " + cfg.describe(sta0, ierr)
			if ierr != nil {
				fmt.Fprintf(w, "%s auth=- ci= disp=- | - | -%s\n", c.ID, initDesc)
				w.Flush()
				continue
			}
			fac = &vfC09StateFactory{spec: vfC09StateSpec{Pv: vfC09Hex(sta0.StaticPv.(*[32]byte)[:])},
				mk: func(now int64) *State {
					sta, err := cfg.initState(now, vfC07TempDir())
					if err != nil {
						panic("InitState failed the second time: " + err.Error())
					}
					return sta
				}}
		}
		if fac == nil {
			t.Fatalf("case %s: unknown state %s", c.ID, c.St)
		}
		pkt := vfC09Unhex(c.Pkt)
		var tr Transport = TLS{}
		if c.Kind == "ws" {
			tr = WebSocket{}
		}
		// (1) AuthFirstPacket
		sta := fac.fresh(c.Now)
		var auth, cis, panicked string
		func() {
			defer func() {
				if r := recover(); r != nil {
					panicked = strings.ReplaceAll(fmt.Sprint(r), " ", "_")
				}
			}()
			ci, _, err := AuthFirstPacket(vfC07Exact(pkt), tr, sta)
			auth = vfC09ErrClass(err)
			if err == nil {
				cis = fmt.Sprintf("%s:%d:%s:%d:%s", vfC09Hex(ci.UID), ci.SessionId, vfC09Hex([]byte(ci.ProxyMethod)),
					ci.EncryptionMethod, vfC09B(ci.Unordered))
			}
		}()
		if panicked != "" {
			fmt.Fprintf(w, "%s PANIC=%s | - | -%s\n", c.ID, panicked, initDesc)
			w.Flush()
			continue
		}
		// tables for the packet as given
		frag, _, perr := tr.processFirstPacket(vfC07Exact(pkt), sta.StaticPv)
		tb := "rand=" + vfC09Hex(frag.randPubKey[:]) + " dh=" + vfC09DH(vfC09Unhex(fac.spec.Pv), frag.randPubKey[:]) +
			" perr=" + vfC09ErrClass(perr)
		if c.Kind == "ws" {
			tb += " hid=" + vfC09Hidden(pkt)
		}
		// (2) dispatchConnection
		sta2 := fac.fresh(c.Now)
		atomic.StoreInt32(&gotUser, 0)
		o := vfC09RunScenario(sta2, [][]byte{pkt}, false, "ok", []byte("WEB"), 0, false)
		disp := "drop"
		switch {
		case o.Panicked != "":
			disp = "panic"
		case o.Dials > 0:
			disp = "web"
		case len(o.Peer) > 0 && atomic.LoadInt32(&gotUser) > 0:
			disp = "proxy"
		case len(o.Peer) > 0:
			disp = "admin"
		case o.PeerClosed:
			disp = "close"
		}
		tgtOK := "-"
		if o.Dials > 0 {
			tgtOK = vfC09B(string(o.Target) == string(pkt))
		}
		line := fmt.Sprintf("%s auth=%s ci=%s disp=%s srv=%d tgtok=%s peerweb=%s uns=%s dials=%d fdials=%d fpeerlen=%d", c.ID, auth, cis, disp,
			len(o.Peer), tgtOK, vfC09B(string(o.Peer) == "WEB"), vfC09B(o.Unsettled), o.Dials, o.FinDials, len(o.FinPeer))
		if o.Panicked != "" {
			line += " PANIC=" + strings.ReplaceAll(o.Panicked, " ", "_")
		}
		if o.HardTimeout {
			line += " hard=1"
		}
		// tables for what readFirstPacket extracts from the same bytes as a stream
		fmt.Fprintf(w, "%s | %s | %s%s\n", line, tb, vfC09Tables(pkt, false, fac, c.Now), initDesc)
		w.Flush() // see c09_test.go: the first case without a line is the one that killed the process
	}
	// let a goroutine that is about to die (panic outside every recover) do so while the process is still there
	time.Sleep(30 * time.Millisecond)
}
