package server

// Lock-step engine shared by the C15 / C16 / C17 drivers (all identifiers prefixed vfC17).
//
// A scenario is executed step by step on a REAL userPanel (hand-built exactly as MakeUserPanel does,
// minus the regularQueueUpload goroutine), a real localManager on a temporary bolt file, the real
// admin API router, real mux.Sessions with LimitedValves, and in-memory connections that count the
// bytes AddRx/AddTx see.  Every operation of the model (dispatch = GetUser/GetBypassUser +
// GetSession as dispatchConnection sequences them, CloseSession, updateUsageQueue, commitUpdate)
// runs on its own goroutine; after each step the engine waits until every unfinished goroutine is
// either parked at a schedule point or blocked in a sync.Mutex / sync.RWMutex wait (read off
// runtime.Stack), and prints the same observation line the extracted model prints.

import (
	"bytes"
	"encoding/base64"
	"encoding/json"
	"fmt"
	"io"
	"net"
	"net/http"
	"net/http/httptest"
	"os"
	"path/filepath"
	"reflect"
	"regexp"
	"runtime"
	"sort"
	"strconv"
	"strings"
	"sync"
	"sync/atomic"
	"testing"
	"time"

	crand "crypto/rand"

	"github.com/cbeuw/Cloak/internal/common"
	mux "github.com/cbeuw/Cloak/internal/multiplex"
	"github.com/cbeuw/Cloak/internal/server/usermanager"
	log "github.com/sirupsen/logrus"
)

// ------------------------------------------------------------------------------------------
// goroutine bookkeeping

func vfC17B(b bool) string {
	if b {
		return "1"
	}
	return "0"
}


var vfC17GoidRe = regexp.MustCompile(`^goroutine (\d+) \[`)
var vfC17StatesRe = regexp.MustCompile(`(?m)^goroutine (\d+) \[([^\]]+)\]:`)

func vfC17Goid() int64 {
	var buf [64]byte
	n := runtime.Stack(buf[:], false)
	m := vfC17GoidRe.FindSubmatch(buf[:n])
	if m == nil {
		return -1
	}
	id, _ := strconv.ParseInt(string(m[1]), 10, 64)
	return id
}

var vfC17StackBuf = make([]byte, 1<<22)

func vfC17States() map[int64]string {
	n := runtime.Stack(vfC17StackBuf, true)
	res := map[int64]string{}
	for _, m := range vfC17StatesRe.FindAllSubmatch(vfC17StackBuf[:n], -1) {
		id, _ := strconv.ParseInt(string(m[1]), 10, 64)
		res[id] = string(m[2])
	}
	return res
}

func vfC17AllStacks() string {
	buf := make([]byte, 1<<22)
	n := runtime.Stack(buf, true)
	return string(buf[:n])
}

func vfC17IsLockWait(st string) bool {
	return strings.Contains(st, "Mutex") || strings.HasPrefix(st, "semacquire")
}

// a goroutine that is not going to move by itself: blocked on a lock, a channel, a condition
// variable, a timer ... (anything but running / runnable / in a system call)
func vfC17IsWaiting(st string) bool {
	if st == "" {
		return false
	}
	for _, p := range []string{"running", "runnable", "syscall", "copystack", "preempted", "GC ", "waiting"} {
		if strings.HasPrefix(st, p) {
			return false
		}
	}
	return true
}

type vfC17Thr struct {
	kind    byte
	armed   atomic.Bool
	armMgr  atomic.Int32 // manager park points still armed: vfC17MgrAuth | vfC17MgrSess | vfC17MgrUpload
	parkSeq atomic.Int64 // number of times this thread has parked (a released thread may park again at once)
	parked  atomic.Bool
	done    atomic.Bool
	goid    atomic.Int64
	release chan struct{}
	result  string
	shown   bool
}

// the threads of the scenario currently running, by goroutine id (for the vhook callback)
var vfC17ByGoid sync.Map

func vfC17HookCallback(point string) {
	v, ok := vfC17ByGoid.Load(vfC17Goid())
	if !ok {
		return
	}
	t := v.(*vfC17Thr)
	t.park()
}

func (t *vfC17Thr) park() {
	if t.armed.Load() {
		t.parkSeq.Add(1)
		t.parked.Store(true)
		<-t.release
		t.armed.Store(false)
		t.parked.Store(false)
	}
}

// ------------------------------------------------------------------------------------------
// the UserManager seam: userPanel.Manager is an interface, so the engine hands the panel a wrapper
// around the real localManager whose AuthenticateUser / AuthoriseNewSession / UploadStatus park the
// calling scenario thread (when it is armed for that point) BEFORE the real call is made.  A thread
// parked there holds whatever locks the code holds across the manager call: that is how "GetUser
// overlapping GetUser" and "commitUpdate's upload in flight while the queue is used" become
// scenario steps instead of lucky timing.

const (
	vfC17MgrAuth   = int32(1) // step suffix 'a': inside Manager.AuthenticateUser (GetUser)
	vfC17MgrSess   = int32(2) // step suffix 's': inside Manager.AuthoriseNewSession (GetSession)
	vfC17MgrUpload = int32(4) // step suffix 'u': inside Manager.UploadStatus (commitUpdate)
)

func (t *vfC17Thr) parkMgr(bit int32) {
	for {
		old := t.armMgr.Load()
		if old&bit == 0 {
			return
		}
		if t.armMgr.CompareAndSwap(old, old&^bit) {
			break
		}
	}
	t.parkSeq.Add(1)
	t.parked.Store(true)
	<-t.release
	t.parked.Store(false)
}

func vfC17ParkMgr(bit int32) {
	if v, ok := vfC17ByGoid.Load(vfC17Goid()); ok {
		v.(*vfC17Thr).parkMgr(bit)
	}
}

type vfC17Mgr struct {
	usermanager.UserManager
}

func (m *vfC17Mgr) AuthenticateUser(UID []byte) (int64, int64, error) {
	vfC17ParkMgr(vfC17MgrAuth)
	return m.UserManager.AuthenticateUser(UID)
}

func (m *vfC17Mgr) AuthoriseNewSession(UID []byte, ainfo usermanager.AuthorisationInfo) error {
	vfC17ParkMgr(vfC17MgrSess)
	return m.UserManager.AuthoriseNewSession(UID, ainfo)
}

func (m *vfC17Mgr) UploadStatus(uploads []usermanager.StatusUpdate) ([]usermanager.StatusResponse, error) {
	vfC17ParkMgr(vfC17MgrUpload)
	return m.UserManager.UploadStatus(uploads)
}

// ------------------------------------------------------------------------------------------
// in-memory connection: the server side of one client connection of a session

type vfC17Conn struct {
	mu      sync.Mutex
	cond    *sync.Cond
	pending []byte
	closed  bool
	idle    bool  // deplex is inside Read with nothing pending
	written int64 // bytes the switchboard wrote (what AddTx sees)
	readN   int64 // bytes handed to deplex (what AddRx sees)
	notice  int64 // of written: bytes written while the session was already closed (Session.Close's notice frame)
	sesh    *mux.Session
}

func vfC17NewConn() *vfC17Conn {
	c := &vfC17Conn{}
	c.cond = sync.NewCond(&c.mu)
	return c
}

func (c *vfC17Conn) Read(p []byte) (int, error) {
	c.mu.Lock()
	defer c.mu.Unlock()
	for len(c.pending) == 0 && !c.closed {
		c.idle = true
		c.cond.Broadcast()
		c.cond.Wait()
	}
	c.idle = false
	if len(c.pending) == 0 {
		return 0, io.EOF
	}
	n := copy(p, c.pending)
	c.pending = c.pending[n:]
	c.readN += int64(n)
	return n, nil
}

func (c *vfC17Conn) Write(p []byte) (int, error) {
	c.mu.Lock()
	defer c.mu.Unlock()
	if c.closed {
		return 0, io.ErrClosedPipe
	}
	c.written += int64(len(p))
	if c.sesh != nil && c.sesh.IsClosed() {
		c.notice += int64(len(p))
	}
	return len(p), nil
}

func (c *vfC17Conn) Close() error {
	c.mu.Lock()
	c.closed = true
	c.cond.Broadcast()
	c.mu.Unlock()
	return nil
}

// inject hands n bytes to deplex and waits until it is back in Read with nothing pending;
// returns the number of bytes actually consumed
func (c *vfC17Conn) inject(n int) int64 {
	c.mu.Lock()
	defer c.mu.Unlock()
	if c.closed || n == 0 {
		return 0
	}
	before := c.readN
	b := make([]byte, n)
	crand.Read(b)
	c.pending = append(c.pending, b...)
	c.idle = false
	c.cond.Broadcast()
	deadline := time.Now().Add(5 * time.Second)
	for !(c.idle && len(c.pending) == 0) && !c.closed && time.Now().Before(deadline) {
		c.mu.Unlock()
		time.Sleep(20 * time.Microsecond)
		c.mu.Lock()
	}
	return c.readN - before
}

type vfC17Addr struct{}

func (vfC17Addr) Network() string { return "tcp" }
func (vfC17Addr) String() string  { return "10.1.7.1:443" }

func (c *vfC17Conn) LocalAddr() net.Addr                { return vfC17Addr{} }
func (c *vfC17Conn) RemoteAddr() net.Addr               { return vfC17Addr{} }
func (c *vfC17Conn) SetDeadline(t time.Time) error      { return nil }
func (c *vfC17Conn) SetReadDeadline(t time.Time) error  { return nil }
func (c *vfC17Conn) SetWriteDeadline(t time.Time) error { return nil }

// ------------------------------------------------------------------------------------------
// the rig

type vfC17Ses struct {
	sesh     *mux.Session
	user     *ActiveUser
	uid      int
	sid      uint32
	conn     *vfC17Conn
	bornDead bool // created in a record activeUsers did not hold at that moment
}

type vfC17Rig struct {
	panel    *userPanel
	manager  usermanager.UserManager
	closer   func()
	api      http.Handler
	nowSec   *int64
	bypass   map[int]bool
	uids     []int
	sessions []*vfC17Ses
	threads  []*vfC17Thr
	patched  bool
	hang     string
	nextMgrArms int32 // manager park points of the thread the current step is about to spawn
}

func vfC17UID(u int) []byte {
	b := make([]byte, 16)
	b[0] = byte(u)
	b[1] = byte(u >> 8)
	for i := 2; i < 16; i++ {
		b[i] = byte(0xC0 + i)
	}
	return b
}

func vfC17Patched() bool {
	_, ok := reflect.TypeOf(ActiveUser{}).FieldByName("terminated")
	return ok
}

const vfC17Rate = int64(1) << 40

// users: "1:2:1000:1000:100,b3" as in the model driver
func vfC17NewRig(dir string, tag string, now int64, users string) (*vfC17Rig, error) {
	r := &vfC17Rig{nowSec: new(int64), bypass: map[int]bool{}, patched: vfC17Patched()}
	*r.nowSec = now
	ws := common.WorldState{Rand: crand.Reader, Now: func() time.Time { return time.Unix(atomic.LoadInt64(r.nowSec), 0) }}
	path := filepath.Join(dir, tag+".db")
	os.Remove(path)
	m, err := usermanager.MakeLocalManager(path, ws)
	if err != nil {
		return nil, err
	}
	r.manager = m
	r.closer = func() { m.Close(); os.Remove(path) }
	r.api = usermanager.APIRouterOf(m)
	if users != "-" {
		for _, e := range strings.Split(users, ",") {
			if e == "" {
				continue
			}
			if e[0] == 'b' {
				u, _ := strconv.Atoi(e[1:])
				r.bypass[u] = true
				r.uids = append(r.uids, u)
				continue
			}
			f := strings.Split(e, ":")
			if len(f) != 5 {
				return nil, fmt.Errorf("bad user %q", e)
			}
			u, _ := strconv.Atoi(f[0])
			cp, _ := strconv.ParseInt(f[1], 10, 32)
			up, _ := strconv.ParseInt(f[2], 10, 64)
			dn, _ := strconv.ParseInt(f[3], 10, 64)
			ex, _ := strconv.ParseInt(f[4], 10, 64)
			err = m.WriteUserInfo(usermanager.UserInfo{UID: vfC17UID(u), SessionsCap: usermanager.JustInt32(int32(cp)),
				UpRate: usermanager.JustInt64(vfC17Rate), DownRate: usermanager.JustInt64(vfC17Rate),
				UpCredit: usermanager.JustInt64(up), DownCredit: usermanager.JustInt64(dn), ExpiryTime: usermanager.JustInt64(ex)})
			if err != nil {
				return nil, err
			}
			r.uids = append(r.uids, u)
		}
	}
	// exactly what MakeUserPanel builds, without starting regularQueueUpload
	r.panel = &userPanel{
		Manager:          &vfC17Mgr{m},
		activeUsers:      make(map[[16]byte]*ActiveUser),
		usageUpdateQueue: make(map[[16]byte]*usagePair),
		uploadInterval:   defaultUploadInterval,
	}
	return r, nil
}

func (r *vfC17Rig) noteUID(u int) {
	for _, x := range r.uids {
		if x == u {
			return
		}
	}
	r.uids = append(r.uids, u)
}

func (r *vfC17Rig) close() {
	for _, t := range r.threads {
		t.armed.Store(false)
		t.armMgr.Store(0)
		if t.parked.Load() {
			select {
			case t.release <- struct{}{}:
			default:
			}
		}
	}
	vfC17SesM.Lock()
	sess := append([]*vfC17Ses(nil), r.sessions...)
	vfC17SesM.Unlock()
	for _, s := range sess {
		s.sesh.Close()
	}
	r.closer()
}

func vfC17SeshConfig() mux.SessionConfig {
	var key [32]byte
	crand.Read(key[:])
	obf, _ := mux.MakeObfuscator(mux.EncryptionMethodAES256GCM, key)
	return mux.SessionConfig{Obfuscator: obf, Valve: nil, Unordered: false, MsgOnWireSizeLimit: appDataMaxLength}
}

func (r *vfC17Rig) spawn(kind byte, armed bool, body func(t *vfC17Thr)) *vfC17Thr {
	t := &vfC17Thr{kind: kind, release: make(chan struct{})}
	t.armed.Store(armed)
	t.armMgr.Store(r.nextMgrArms)
	r.nextMgrArms = 0
	t.goid.Store(-1)
	r.threads = append(r.threads, t)
	go func() {
		id := vfC17Goid()
		vfC17ByGoid.Store(id, t)
		t.goid.Store(id)
		defer func() {
			vfC17ByGoid.Delete(id)
			t.done.Store(true)
		}()
		body(t)
	}()
	return t
}

// dispatch: the user-resolution part of dispatchConnection, step for step (dispatcher.go:231-252;
// with the F5 repair: the retry loop), with the schedule point where vhook("dispatch.gotUser") is
func (r *vfC17Rig) dispatch(t *vfC17Thr, uid int, sid uint32) {
	UID := vfC17UID(uid)
	for {
		var user *ActiveUser
		var err error
		if r.bypass[uid] {
			user, err = r.panel.GetBypassUser(UID)
		} else {
			user, err = r.panel.GetUser(UID)
		}
		if err != nil {
			t.result = "una"
			return
		}
		t.park() // dispatch.gotUser
		sesh, existing, err := user.GetSession(sid, vfC17SeshConfig())
		if err != nil && r.patched && err.Error() == "user has been terminated" {
			continue
		}
		if err != nil {
			user.CloseSession(sid, "")
			t.result = "ref"
			return
		}
		k := -1
		if !existing {
			c := vfC17NewConn()
			c.sesh = sesh
			sesh.AddConnection(c)
			var arr [16]byte
			copy(arr[:], UID)
			r.panel.activeUsersM.RLock()
			dead := r.panel.activeUsers[arr] != user
			r.panel.activeUsersM.RUnlock()
			vfC17SesM.Lock()
			r.sessions = append(r.sessions, &vfC17Ses{sesh: sesh, user: user, uid: uid, sid: sid, conn: c, bornDead: dead})
			k = len(r.sessions) - 1
			vfC17SesM.Unlock()
			t.result = fmt.Sprintf("ok%dn", k)
		} else {
			for try := 0; try < 200000 && k < 0; try++ {
				vfC17SesM.Lock()
				for i, s := range r.sessions {
					if s.sesh == sesh {
						k = i
					}
				}
				vfC17SesM.Unlock()
				if k < 0 {
					// the creator appends to r.sessions after its GetSession has returned: when two
					// dispatches overlap, the joiner can get here first
					runtime.Gosched()
				}
			}
			t.result = fmt.Sprintf("ok%de", k)
		}
		return
	}
}

var vfC17SesM sync.Mutex

// quiescent moments (all threads finished) of the scenario just run at which a live session was
// unreachable: " <step index>:<k>,<k>..." per moment
var vfC17OrphAt string

func (r *vfC17Rig) ses(k int) *vfC17Ses {
	vfC17SesM.Lock()
	defer vfC17SesM.Unlock()
	if k < 0 || k >= len(r.sessions) {
		return nil
	}
	return r.sessions[k]
}

// settle: wait until every unfinished thread is parked or blocked on a lock (two consecutive
// identical polls); a wall-clock watchdog records the goroutine stacks if that never happens
func (r *vfC17Rig) settle() {
	deadline := time.Now().Add(20 * time.Second)
	stable := 0
	for {
		all := true
		var states map[int64]string
		for _, t := range r.threads {
			if t.done.Load() || t.parked.Load() {
				continue
			}
			if states == nil {
				states = vfC17States()
			}
			id := t.goid.Load()
			if id < 0 || !vfC17IsWaiting(states[id]) {
				all = false
				break
			}
		}
		if all {
			stable++
			if stable >= 2 {
				return
			}
		} else {
			stable = 0
		}
		if time.Now().After(deadline) {
			r.hang = vfC17AllStacks()
			return
		}
		if stable == 0 {
			time.Sleep(30 * time.Microsecond)
		} else {
			runtime.Gosched()
		}
	}
}

func (r *vfC17Rig) status(t *vfC17Thr) string {
	if t.done.Load() {
		if t.result == "bad" {
			return "X"
		}
		return "F" + t.result
	}
	if t.parked.Load() {
		return "H"
	}
	if id := t.goid.Load(); id >= 0 {
		if st := vfC17States()[id]; st != "" && !vfC17IsLockWait(st) && vfC17IsWaiting(st) {
			return "S" // waiting for something that is not a lock (a real dispatcher serving its session)
		}
	}
	return "B"
}

func (r *vfC17Rig) admin(method string, uid int, body map[string]interface{}) int {
	UID := vfC17UID(uid)
	var rd io.Reader
	if body != nil {
		body["UID"] = UID
		js, _ := json.Marshal(body)
		rd = bytes.NewReader(js)
	}
	req := httptest.NewRequest(method, "/admin/users/"+base64.URLEncoding.EncodeToString(UID), rd)
	rr := httptest.NewRecorder()
	r.api.ServeHTTP(rr, req)
	return rr.Code
}

// obs prints the observation line of the model driver (ocaml/c17_driver.ml)
func (r *vfC17Rig) obs() string {
	var b strings.Builder
	b.WriteByte('[')
	first := true
	for i, t := range r.threads {
		st := r.status(t)
		if st[0] == 'F' || st[0] == 'X' {
			if t.shown {
				continue
			}
			t.shown = true
		}
		if !first {
			b.WriteByte(',')
		}
		first = false
		fmt.Fprintf(&b, "%d:%s", i, st)
	}
	b.WriteByte('|')
	p := r.panel
	aOK := p.activeUsersM.TryRLock()
	if !aOK {
		b.WriteByte('?')
	} else {
		for i, u := range r.uids {
			if i > 0 {
				b.WriteByte(',')
			}
			var arr [16]byte
			copy(arr[:], vfC17UID(u))
			user := p.activeUsers[arr]
			if user == nil {
				fmt.Fprintf(&b, "%d=-", u)
			} else if user.sessionsM.TryRLock() {
				fmt.Fprintf(&b, "%d=%d", u, len(user.sessions))
				user.sessionsM.RUnlock()
			} else {
				fmt.Fprintf(&b, "%d=?", u)
			}
		}
	}
	b.WriteByte('|')
	vfC17SesM.Lock()
	sess := append([]*vfC17Ses(nil), r.sessions...)
	vfC17SesM.Unlock()
	for _, s := range sess {
		if s.sesh.IsClosed() {
			b.WriteByte('1')
		} else {
			b.WriteByte('0')
		}
	}
	b.WriteByte('|')
	if !aOK {
		b.WriteByte('?')
	} else {
		for _, s := range sess {
			var arr [16]byte
			copy(arr[:], vfC17UID(s.uid))
			if p.activeUsers[arr] == s.user {
				b.WriteByte('1')
			} else {
				b.WriteByte('0')
			}
		}
		p.activeUsersM.RUnlock()
	}
	b.WriteByte('|')
	if p.usageUpdateQueueM.TryLock() {
		type qe struct {
			u        int
			up, down int64
		}
		var es []qe
		for arr, pair := range p.usageUpdateQueue {
			es = append(es, qe{int(arr[0]) | int(arr[1])<<8, *pair.up, *pair.down})
		}
		p.usageUpdateQueueM.Unlock()
		sort.Slice(es, func(i, j int) bool { return es[i].u < es[j].u })
		for i, e := range es {
			if i > 0 {
				b.WriteByte(',')
			}
			fmt.Fprintf(&b, "%d:%d:%d", e.u, e.up, e.down)
		}
	} else {
		b.WriteByte('?')
	}
	b.WriteByte('|')
	firstU := true
	for _, u := range r.uids {
		if r.bypass[u] {
			continue
		}
		if !firstU {
			b.WriteByte(',')
		}
		firstU = false
		info, err := r.manager.GetUserInfo(vfC17UID(u))
		if err != nil {
			fmt.Fprintf(&b, "%d:x", u)
		} else {
			fmt.Fprintf(&b, "%d:%d:%d", u, *info.UpCredit, *info.DownCredit)
		}
	}
	b.WriteByte(']')
	return b.String()
}

// oracle facts that do not depend on the model: which live sessions the panel cannot reach
func (r *vfC17Rig) unreachableLive() []int {
	var res []int
	p := r.panel
	if !p.activeUsersM.TryRLock() {
		return nil
	}
	defer p.activeUsersM.RUnlock()
	vfC17SesM.Lock()
	sess := append([]*vfC17Ses(nil), r.sessions...)
	vfC17SesM.Unlock()
	for k, s := range sess {
		if s.sesh.IsClosed() || r.bypass[s.uid] {
			continue
		}
		var arr [16]byte
		copy(arr[:], vfC17UID(s.uid))
		user := p.activeUsers[arr]
		ok := false
		if user != nil && user.sessionsM.TryRLock() {
			ok = user.sessions[s.sid] == s.sesh
			user.sessionsM.RUnlock()
		}
		if !ok {
			res = append(res, k)
		}
	}
	return res
}

// step executes one scenario step and returns the step as it should be replayed by the model
// (traffic steps get the byte counts the connections actually saw)
func (r *vfC17Rig) step(st string) string {
	// D / U / M / R steps may carry park-point suffixes: h (the vhook schedule point), a / s / u
	// (inside Manager.AuthenticateUser / AuthoriseNewSession / UploadStatus), in any combination
	body := st
	hooked := false
	var mgrArms int32
	if st != "" && strings.IndexByte("DUMR", st[0]) >= 0 {
		for len(body) > 1 && strings.IndexByte("hasu", body[len(body)-1]) >= 0 {
			switch body[len(body)-1] {
			case 'h':
				hooked = true
			case 'a':
				mgrArms |= vfC17MgrAuth
			case 's':
				mgrArms |= vfC17MgrSess
			case 'u':
				mgrArms |= vfC17MgrUpload
			}
			body = body[:len(body)-1]
		}
	}
	r.nextMgrArms = mgrArms
	ints := func(s string) []int {
		var res []int
		for _, f := range strings.Split(s, ".") {
			v, _ := strconv.Atoi(f)
			res = append(res, v)
		}
		return res
	}
	out := st
	switch body[0] {
	case 'D':
		a := ints(body[1:])
		uid, sid := a[0], uint32(a[1])
		r.noteUID(uid)
		r.spawn('D', hooked, func(t *vfC17Thr) { r.dispatch(t, uid, sid) })
	case 'C':
		k, _ := strconv.Atoi(body[1:])
		if s := r.ses(k); s != nil {
			r.spawn('C', false, func(t *vfC17Thr) { s.user.CloseSession(s.sid, "") })
		} else {
			r.spawn('C', false, func(t *vfC17Thr) { t.result = "bad" })
		}
	case 'B':
		k, _ := strconv.Atoi(body[1:])
		// the session's connection is lost: deplex sees EOF and closes the session passively (no notice frame)
		if s := r.ses(k); s != nil {
			s.conn.Close()
			for i := 0; i < 20000 && !s.sesh.IsClosed(); i++ {
				time.Sleep(50 * time.Microsecond)
			}
		}
	case 'U':
		r.spawn('U', hooked, func(t *vfC17Thr) { r.panel.updateUsageQueue() })
	case 'M':
		r.spawn('M', false, func(t *vfC17Thr) { r.panel.commitUpdate() })
	case 'R':
		r.spawn('R', hooked, func(t *vfC17Thr) { r.panel.updateUsageQueue(); r.panel.commitUpdate() })
	case 'G', 'g':
		// G<t>: release thread t from the point it is parked at; a thread that is not parked is
		// disarmed (it will not stop any more).  g<t>: release if parked, otherwise nothing.
		ti, _ := strconv.Atoi(body[1:])
		if ti < len(r.threads) {
			t := r.threads[ti]
			if t.parked.Load() {
				seq := t.parkSeq.Load()
				t.release <- struct{}{}
				// until it has left that park point (it may park at its next one right away)
				for t.parked.Load() && t.parkSeq.Load() == seq {
					runtime.Gosched()
				}
			} else if body[0] == 'G' {
				t.armed.Store(false)
				t.armMgr.Store(0)
			}
		}
	case 'T':
		a := ints(body[1:])
		k, rx, tx := a[0], a[1], a[2]
		var gotRx, gotTx int64
		if s := r.ses(k); s != nil {
			gotRx = s.conn.inject(rx)
			if tx > 0 && !s.sesh.IsClosed() {
				s.conn.mu.Lock()
				before := s.conn.written
				s.conn.mu.Unlock()
				if stream, err := s.sesh.OpenStream(); err == nil {
					stream.Write(make([]byte, tx))
				}
				s.conn.mu.Lock()
				gotTx = s.conn.written - before
				s.conn.mu.Unlock()
			}
		}
		out = fmt.Sprintf("T%d.%d.%d", k, gotRx, gotTx)
	case 'K':
		d, _ := strconv.Atoi(body[1:])
		atomic.AddInt64(r.nowSec, int64(d))
	case 'A':
		parts := strings.Split(body[2:], ".")
		uid, _ := strconv.Atoi(parts[0])
		r.noteUID(uid)
		if body[1] == 'd' {
			r.admin("DELETE", uid, nil)
		} else {
			m := map[string]interface{}{}
			for _, p := range parts[1:] {
				v, _ := strconv.ParseInt(p[1:], 10, 64)
				switch p[0] {
				case 'c':
					m["SessionsCap"] = int32(v)
				case 'u':
					m["UpCredit"] = v
				case 'd':
					m["DownCredit"] = v
				case 'e':
					m["ExpiryTime"] = v
				}
			}
			// a user created through the API needs rates, or MakeValve panics (F8, C18's finding)
			if _, err := r.manager.GetUserInfo(vfC17UID(uid)); err != nil {
				m["UpRate"] = vfC17Rate
				m["DownRate"] = vfC17Rate
			}
			r.admin("POST", uid, m)
		}
	}
	r.settle()
	return out
}

// runScenario: returns the observation line, the steps as the model must replay them, the
// indices of unreachable live sessions at the end, whether a thread is blocked for good, and the
// goroutine dump of a hang (or "")
func vfC17RunScenario(dir, id string, now int64, users string, steps []string) (obs []string, replay []string, orphans []int, blocked []int, hang string, sesInfo string) {
	r, err := vfC17NewRig(dir, id, now, users)
	if err != nil {
		return []string{"ERROR " + err.Error()}, steps, nil, nil, "", ""
	}
	SetVerifHook(vfC17HookCallback)
	defer SetVerifHook(nil)
	vfC17OrphAt = ""
	for i, st := range steps {
		replay = append(replay, r.step(st))
		obs = append(obs, r.obs())
		if r.hang != "" {
			break
		}
		// "at every quiescent moment": when every thread has finished, which live sessions can the
		// panel not reach?  (the check at the end of the scenario misses a loss that a later
		// CloseSession of the lost session happens to clean up)
		quiet := true
		for _, t := range r.threads {
			if !t.done.Load() {
				quiet = false
			}
		}
		if quiet {
			if o := r.unreachableLive(); len(o) > 0 {
				vfC17OrphAt += fmt.Sprintf(" %d:%s", i, strings.Trim(strings.Join(strings.Fields(fmt.Sprint(o)), ","), "[]"))
			}
		}
	}
	anyParked := false
	for _, t := range r.threads {
		if t.parked.Load() {
			anyParked = true
		}
	}
	for i, t := range r.threads {
		if !t.done.Load() && !t.parked.Load() && !anyParked {
			blocked = append(blocked, i)
		}
	}
	if len(blocked) > 0 && r.hang == "" {
		r.hang = vfC17AllStacks()
	}
	if len(blocked) == 0 && !anyParked {
		orphans = r.unreachableLive()
	}
	hang = r.hang
	vfC17SesM.Lock()
	// the last two fields number the distinct valves / ActiveUser records of the scenario in order of
	// first appearance: all live sessions of one limited user must show one valve and one record
	valveIdx := map[mux.Valve]int{}
	recIdx := map[*ActiveUser]int{}
	for k, s := range r.sessions {
		if _, ok := valveIdx[s.sesh.Valve]; !ok {
			valveIdx[s.sesh.Valve] = len(valveIdx)
		}
		if _, ok := recIdx[s.user]; !ok {
			recIdx[s.user] = len(recIdx)
		}
		s.conn.mu.Lock()
		sesInfo += fmt.Sprintf(" %d:%d:%s:%s:%d:%d:%d:%d:%d", k, s.uid, vfC17B(s.sesh.IsClosed()), vfC17B(s.bornDead), s.conn.readN, s.conn.written, s.conn.notice,
			valveIdx[s.sesh.Valve], recIdx[s.user])
		s.conn.mu.Unlock()
	}
	vfC17SesM.Unlock()
	if len(blocked) == 0 {
		r.close()
	}
	return
}

// vfC17RunFile: the scenario loop shared by TestVerifC17 and TestVerifC16 (special lines starting
// with '!' are handed to the callback)
func vfC17RunFile(t *testing.T, special func(dir, line string) string) {
	in := os.Getenv("VERIF_IN")
	out := os.Getenv("VERIF_OUT")
	if in == "" || out == "" {
		t.Skip("VERIF_IN / VERIF_OUT not set")
	}
	log.SetOutput(io.Discard)
	data, err := os.ReadFile(in)
	if err != nil {
		t.Fatal(err)
	}
	fo, err := os.Create(out)
	if err != nil {
		t.Fatal(err)
	}
	defer fo.Close()
	dir, err := os.MkdirTemp("", "vfc17")
	if err != nil {
		t.Fatal(err)
	}
	defer os.RemoveAll(dir)
	dumpDir := os.Getenv("VERIF_DUMP")
	if dumpDir == "" {
		dumpDir = filepath.Dir(out)
	}
	fmt.Fprintf(fo, "#cfg patched=%s\n", vfC17B(vfC17Patched()))
	stuck := 0
	for _, ln := range strings.Split(string(data), "\n") {
		f := strings.Fields(ln)
		if len(f) == 0 {
			continue
		}
		if f[0][0] == '!' {
			if special != nil {
				fmt.Fprintln(fo, special(dir, f[0]))
			}
			continue
		}
		if len(f) < 5 {
			continue
		}
		if stuck >= 3 {
			fmt.Fprintf(fo, "%s SKIPPED-after-repeated-deadlocks\n", f[0])
			continue
		}
		var now int64
		fmt.Sscan(f[2], &now)
		obs, replay, orphans, blocked, hang, sesInfo := vfC17RunScenario(dir, f[0], now, f[3], f[4:])
		fmt.Fprintf(fo, "%s %s\n", f[0], strings.Join(obs, " "))
		fmt.Fprintf(fo, "#replay %s %s %s %s %s\n", f[0], f[1], f[2], f[3], strings.Join(replay, " "))
		fmt.Fprintf(fo, "#ses %s%s\n", f[0], sesInfo)
		if len(orphans) > 0 {
			fmt.Fprintf(fo, "#orph %s %s\n", f[0], strings.Trim(strings.Join(strings.Fields(fmt.Sprint(orphans)), ","), "[]"))
		}
		if vfC17OrphAt != "" {
			fmt.Fprintf(fo, "#orphat %s%s\n", f[0], vfC17OrphAt)
		}
		if len(blocked) > 0 {
			stuck++
			fmt.Fprintf(fo, "#blocked %s %s\n", f[0], strings.Trim(strings.Join(strings.Fields(fmt.Sprint(blocked)), ","), "[]"))
		}
		if hang != "" {
			p := filepath.Join(dumpDir, "hang_"+f[0]+".txt")
			os.WriteFile(p, []byte(hang), 0644)
			fmt.Fprintf(fo, "#hang %s %s\n", f[0], p)
		}
	}
	fo.Sync()
}
