package server

// C09 driver.  VERIF_MODE=gen : JSON gen specs -> "<id> <packet hex>" (genuine client first packets)
//              VERIF_MODE=run : JSON lines, first the states {"state":..}, then the cases
//                 {"id","st","now","end","dial","reply","after","tclose","chunks":[hex..]}
//              -> "<id> <observation> | <tables for the model>"
// The real dispatchConnection runs between a scripted segmenting peer connection and a scripted
// RedirDialer target (c09_rig_test.go).

import (
	"bufio"
	"encoding/json"
	"fmt"
	"io"
	"os"
	"strings"
	"testing"
	"time"

	"github.com/cbeuw/Cloak/internal/common"
	log "github.com/sirupsen/logrus"
)

type vfC09Case struct {
	ID     string   `json:"id"`
	St     string   `json:"st"`
	Now    int64    `json:"now"`
	End    string   `json:"end"`
	Dial   string   `json:"dial"`
	Reply  string   `json:"reply"`
	After  int      `json:"after"`
	TClose bool     `json:"tclose"`
	Chunks []string `json:"chunks"`
	PWFail int      `json:"pwfail"` // the n-th Write of the server on the peer connection fails (0 = never)
}

func vfC09Open(t *testing.T) (*bufio.Scanner, *bufio.Writer, func()) {
	in := os.Getenv("VERIF_IN")
	out := os.Getenv("VERIF_OUT")
	if in == "" || out == "" {
		t.Skip("VERIF_IN / VERIF_OUT not set")
	}
	fi, err := os.Open(in)
	if err != nil {
		t.Fatal(err)
	}
	fo, err := os.Create(out)
	if err != nil {
		t.Fatal(err)
	}
	sc := bufio.NewScanner(fi)
	sc.Buffer(make([]byte, 1<<20), 1<<28)
	w := bufio.NewWriterSize(fo, 1<<20)
	return sc, w, func() { w.Flush(); fo.Close(); fi.Close() }
}

func vfC09Gen(t *testing.T, sc *bufio.Scanner, w *bufio.Writer) {
	for sc.Scan() {
		ln := strings.TrimSpace(sc.Text())
		if ln == "" {
			continue
		}
		var g vfC09GenSpec
		if err := json.Unmarshal([]byte(ln), &g); err != nil {
			t.Fatalf("bad gen spec %q: %v", ln, err)
		}
		var p []byte
		var err error
		if g.Kind == "seal" {
			p, err = vfC09Seal(g)
		} else {
			p, err = vfC09GenPacket(g)
		}
		if err != nil {
			t.Fatalf("gen %s: %v", g.ID, err)
		}
		fmt.Fprintf(w, "%s %s\n", g.ID, vfC09Hex(p))
	}
}

// the tables the model needs for the first packet of this stream, plus what AuthFirstPacket says
func vfC09Tables(stream []byte, eof bool, fac *vfC09StateFactory, now int64) string {
	data, tr, redir, err := vfC09FirstData(stream, eof)
	trs := "none"
	switch tr.(type) {
	case TLS:
		trs = "tls"
	case WebSocket:
		trs = "ws"
	}
	s := fmt.Sprintf("n=%d tr=%s redir=%s rerr=%s", len(data), trs, vfC09B(redir), vfC09B(err != nil))
	if err != nil || tr == nil {
		return s
	}
	sta := fac.fresh(now)
	if trs == "ws" {
		s += " hid=" + vfC09Hidden(data)
	}
	frag, _, perr := tr.processFirstPacket(append(make([]byte, 0, len(data)), data...), sta.StaticPv)
	// the random the parser extracted (also when a later step failed) and X25519 on it
	s += " rand=" + vfC09Hex(frag.randPubKey[:]) + " dh=" + vfC09DH(vfC09Unhex(fac.spec.Pv), frag.randPubKey[:])
	s += " perr=" + vfC09ErrClass(perr)
	if perr == nil {
		pt, derr := common.AESGCMDecrypt(frag.randPubKey[0:12], frag.sharedSecret[:], frag.ciphertextWithTag[:])
		if derr != nil {
			s += " pt=!"
		} else {
			s += " pt=" + vfC09Hex(pt)
		}
		s += " ct=" + vfC09Hex(frag.ciphertextWithTag[:])
	}
	ci, _, aerr := AuthFirstPacket(append(make([]byte, 0, len(data)), data...), tr, sta)
	s += " auth=" + vfC09ErrClass(aerr)
	if aerr == nil {
		s += fmt.Sprintf(" ci=%s:%d:%s:%d:%s", vfC09Hex(ci.UID), ci.SessionId, vfC09Hex([]byte(ci.ProxyMethod)),
			ci.EncryptionMethod, vfC09B(ci.Unordered))
	}
	return s
}

func TestVerifC09(t *testing.T) {
	sc, w, done := vfC09Open(t)
	defer done()
	defer vfC09Cleanup()
	log.SetOutput(io.Discard)
	log.SetLevel(log.PanicLevel)
	if os.Getenv("VERIF_MODE") == "gen" {
		vfC09Gen(t, sc, w)
		return
	}
	vfC09ParkFirstTargetWrite = true
	defer func() { vfC09ParkFirstTargetWrite = false }()
	facs := map[string]*vfC09StateFactory{}
	for sc.Scan() {
		ln := strings.TrimSpace(sc.Text())
		if ln == "" {
			continue
		}
		if strings.HasPrefix(ln, `{"state"`) {
			var sp vfC09StateSpec
			if err := json.Unmarshal([]byte(ln), &sp); err != nil {
				t.Fatalf("bad state %q: %v", ln, err)
			}
			f, err := vfC09MakeFactory(sp)
			if err != nil {
				t.Fatal(err)
			}
			facs[sp.Name] = f
			continue
		}
		var c vfC09Case
		if err := json.Unmarshal([]byte(ln), &c); err != nil {
			t.Fatalf("bad case %q: %v", ln, err)
		}
		fac := facs[c.St]
		if fac == nil {
			t.Fatalf("case %s: unknown state %s", c.ID, c.St)
		}
		var chunks [][]byte
		var stream []byte
		for _, h := range c.Chunks {
			b := vfC09Unhex(h)
			chunks = append(chunks, b)
			stream = append(stream, b...)
		}
		sta := fac.fresh(c.Now)
		o := vfC09RunScenarioX(sta, chunks, c.End == "eof", c.Dial, vfC09Unhex(c.Reply), c.After, c.TClose, c.PWFail)
		fmt.Fprintf(w, "%s %s | %s\n", c.ID, o.String(), vfC09Tables(stream, c.End == "eof", fac, c.Now))
		// one line per case reaches the file at once: if a goroutine of the server panics outside every recover the
		// process dies, and the first case without a line is the input that killed it
		w.Flush()
	}
	// let a goroutine that is about to die (panic outside every recover) do so while the process is still there
	time.Sleep(30 * time.Millisecond)
}
