package server

// C07, configuration layer: the server State is built by the REAL InitState from a generated RawConfig (not by hand),
// then first packets are run against it exactly as in c07_test.go.  What InitState derived is printed for the
// comparison with the model (Model/ServerInit.v): error class, AdminUID, the bypass key set, the ProxyBook key set
// with the network of each entry, the user manager kind, KeepAlive of the proxy dialer, redirect host and port.
// Offline: RedirAddr and proxy addresses are IP literals (anything else makes Go ask the resolver, which fails at
// once here); the database lives in a temporary directory.

import (
	"reflect"
	"fmt"
	"net"
	"os"
	"path/filepath"
	"sort"
	"strings"
	"time"

	"github.com/cbeuw/Cloak/internal/common"
	"github.com/cbeuw/Cloak/internal/server/usermanager"
)

type vfC07Cfg struct {
	Book      map[string][]string `json:"book"`
	Bypass    []string            `json:"bypass"` // hex
	Admin     string              `json:"admin"`  // hex
	Pk        string              `json:"pk"`     // hex
	Redir     string              `json:"redir"`
	DB        bool                `json:"db"` // DatabasePath set (a fresh bolt file holding Users)
	DBBad     bool                `json:"dbbad"` // DatabasePath set to a file in a directory that does not exist
	Users     []vfC09UserSpec     `json:"users"`
	KeepAlive int                 `json:"keepalive"`
	Cnc       bool                `json:"cnc"`
	Hosts     []string            `json:"hosts"` // candidate redirect hosts to resolve for the model's table
}

var vfC07DBSeq int

func (c *vfC07Cfg) raw(dbPath string) RawConfig {
	rc := RawConfig{ProxyBook: c.Book, RedirAddr: c.Redir, PrivateKey: vfC09Unhex(c.Pk), DatabasePath: dbPath,
		KeepAlive: c.KeepAlive, CncMode: c.Cnc}
	if c.Admin != "" && c.Admin != "-" {
		rc.AdminUID = vfC09Unhex(c.Admin)
	}
	for _, b := range c.Bypass {
		rc.BypassUID = append(rc.BypassUID, vfC09Unhex(b))
	}
	// Options this harness has never heard of (a numeric field added to RawConfig later) are given a large value:
	// what the property fixes - the acceptance window, who is served - must not depend on them.  On the code as it
	// is there is no such field and this does nothing.
	rv := reflect.ValueOf(&rc).Elem()
	for i := 0; i < rv.NumField(); i++ {
		if vfC07KnownOptions[rv.Type().Field(i).Name] {
			continue
		}
		switch f := rv.Field(i); f.Kind() {
		case reflect.Int, reflect.Int8, reflect.Int16, reflect.Int32, reflect.Int64:
			f.SetInt(100000)
		case reflect.Uint, reflect.Uint8, reflect.Uint16, reflect.Uint32, reflect.Uint64:
			f.SetUint(100000)
		case reflect.Float32, reflect.Float64:
			f.SetFloat(100000)
		}
	}
	return rc
}

var vfC07KnownOptions = map[string]bool{"ProxyBook": true, "BindAddr": true, "BypassUID": true, "RedirAddr": true, "PrivateKey": true,
	"AdminUID": true, "DatabasePath": true, "KeepAlive": true, "CncMode": true}

// a fresh State through InitState; the database (if configured) is a new file each time (bolt locks the file)
func (c *vfC07Cfg) initState(nowNs int64, dir string) (*State, error) {
	ws := common.WorldState{Rand: vfC07RandReader{}, Now: func() time.Time { return time.Unix(0, nowNs) }}
	dbPath := ""
	if c.DBBad {
		dbPath = filepath.Join(dir, "no-such-directory", "users.db")
	} else if c.DB {
		vfC07DBSeq++
		dbPath = filepath.Join(dir, fmt.Sprintf("init%d.db", vfC07DBSeq))
		m, err := usermanager.MakeLocalManager(dbPath, ws)
		if err != nil {
			return nil, err
		}
		for _, u := range c.Users {
			err = m.WriteUserInfo(usermanager.UserInfo{UID: vfC09Unhex(u.UID), SessionsCap: usermanager.JustInt32(u.Cap),
				UpRate: usermanager.JustInt64(u.UpRate), DownRate: usermanager.JustInt64(u.DownRate),
				UpCredit: usermanager.JustInt64(u.Up), DownCredit: usermanager.JustInt64(u.Down),
				ExpiryTime: usermanager.JustInt64(u.Exp)})
			if err != nil {
				return nil, err
			}
		}
		m.Close()
	}
	return InitState(c.raw(dbPath), ws)
}

type vfC07RandReader struct{}

func (vfC07RandReader) Read(p []byte) (int, error) { return vfC07CryptoRead(p) }

func vfC07InitErrClass(err error) string {
	m := err.Error()
	switch {
	case strings.Contains(m, "command & control"):
		return "cnc"
	case strings.Contains(m, "unable to parse RedirAddr"):
		return "redir"
	case strings.Contains(m, "unable to parse ProxyBook"):
		return "book"
	case strings.Contains(m, "valid private key"):
		return "key"
	}
	return "db"
}

// what InitState derived, and the resolver tables the model takes as parameters
func (c *vfC07Cfg) describe(sta *State, err error) string {
	s := ""
	if err != nil {
		s = "init=err:" + vfC07InitErrClass(err)
	} else {
		var keys []string
		for k := range sta.BypassUID {
			keys = append(keys, vfC09Hex(k[:]))
		}
		sort.Strings(keys)
		var book []string
		for name, a := range sta.ProxyBook {
			book = append(book, vfC09Hex([]byte(name))+":"+a.Network())
		}
		sort.Strings(book)
		mgr := "local"
		if _, ok := sta.Panel.Manager.(*usermanager.Voidmanager); ok {
			mgr = "void"
		}
		ka := int64(0)
		if d, ok := sta.ProxyDialer.(*net.Dialer); ok {
			ka = int64(d.KeepAlive)
		}
		pv := sta.StaticPv.(*[32]byte)
		rhost := ""
		if ip, ok := sta.RedirHost.(*net.IPAddr); ok && ip != nil {
			rhost = ip.String()
		}
		s = fmt.Sprintf("init=ok adm=%s byp=%s ibook=%s mgr=%s ka=%d ipv=%s rhost=%s rport=%s", vfC09Hex(sta.AdminUID),
			vfC07Join(keys, ","), vfC07Join(book, ","), mgr, ka, vfC09Hex(pv[:]), vfC09Hex([]byte(rhost)), vfC09Hex([]byte(sta.RedirPort)))
	}
	var rres []string
	for _, h := range c.Hosts {
		_, e := net.ResolveIPAddr("ip", h)
		rres = append(rres, vfC09Hex([]byte(h))+":"+vfC09B(e == nil))
	}
	var ares []string
	var names []string
	for n := range c.Book {
		names = append(names, n)
	}
	sort.Strings(names)
	for _, n := range names {
		pair := c.Book[n]
		if len(pair) != 2 {
			continue
		}
		var e error
		switch strings.ToLower(pair[0]) {
		case "tcp":
			_, e = net.ResolveTCPAddr("tcp", pair[1])
		case "udp":
			_, e = net.ResolveUDPAddr("udp", pair[1])
		default:
			continue
		}
		ares = append(ares, vfC09Hex([]byte(strings.ToLower(pair[0])))+":"+vfC09Hex([]byte(pair[1]))+":"+vfC09B(e == nil))
	}
	return s + " rres=" + vfC07Join(rres, ",") + " ares=" + vfC07Join(ares, ",")
}

func vfC07Join(l []string, sep string) string {
	if len(l) == 0 {
		return "-"
	}
	return strings.Join(l, sep)
}

var vfC07InitDir string

func vfC07TempDir() string {
	if vfC07InitDir == "" {
		d, err := os.MkdirTemp("", "vfc07init")
		if err != nil {
			panic(err)
		}
		vfC07InitDir = d
		vfC09TmpDirs = append(vfC09TmpDirs, d)
	}
	return vfC07InitDir
}
