package server

// Rig shared by the C09 and C07 drivers (both belong to the same worker; injected with -overlay):
//   - vfC09World: an in-memory, scripted, segmenting peer connection and a scripted redirect target
//     (common.Dialer), with exact quiescence detection (no sleeps, no real sockets)
//   - State construction from a JSON spec (hand-built State, no never-ending goroutines)
//   - generation of genuine first packets with the real client package
//   - the per-packet tables the extracted model needs (X25519 results, http/base64 black box)

import (
	"bufio"
	"bytes"
	"crypto/aes"
	"crypto/cipher"
	"crypto/ecdsa"
	"crypto/elliptic"
	crand "crypto/rand"
	"crypto/tls"
	"crypto/x509"
	"crypto/x509/pkix"
	"encoding/base64"
	"encoding/binary"
	"encoding/hex"
	"errors"
	"fmt"
	"io"
	"math/big"
	mrand "math/rand"
	"net"
	"net/http"
	"os"
	"path/filepath"
	"regexp"
	"runtime"
	"strings"
	"sync"
	"time"

	"github.com/cbeuw/connutil"

	"github.com/cbeuw/Cloak/internal/client"
	"github.com/cbeuw/Cloak/internal/common"
	"github.com/cbeuw/Cloak/internal/ecdh"
	mux "github.com/cbeuw/Cloak/internal/multiplex"
	"github.com/cbeuw/Cloak/internal/server/usermanager"
	"golang.org/x/crypto/curve25519"
)

func vfC09Hex(b []byte) string {
	if len(b) == 0 {
		return "-"
	}
	return hex.EncodeToString(b)
}

func vfC09Unhex(s string) []byte {
	if s == "-" || s == "" {
		return []byte{}
	}
	b, err := hex.DecodeString(s)
	if err != nil {
		panic("bad hex " + s)
	}
	return b
}

func vfC09B(b bool) string {
	if b {
		return "1"
	}
	return "0"
}

// ------------------------------------------------------------------------------------------
// world: one mutex, one condition variable; every event on either connection goes through it

type vfC09World struct {
	mu       sync.Mutex
	cond     *sync.Cond
	peer     *vfC09Peer
	web      *vfC09Web
	dials    int
	dialAddr string
	dialErr  bool
	returned bool
	panicked string
	rootGoid string // the goroutine running dispatchConnection on this world's peer connection
	evCh        chan struct{}
	hardTimeout bool // the last-resort bound of waitSettled / the hang-up phase was hit (machine starved): no verdict
	lastBusy string // goroutines of this connection that were neither finished nor parked in a scripted Read at the last settle check
	// target script
	dialMode   string // ok | fail | wfail
	reply      []byte
	after      int
	tclose     bool
	eventCount int
}

type vfC09Addr struct{ s string }

func (a vfC09Addr) Network() string { return "tcp" }
func (a vfC09Addr) String() string  { return a.s }

type vfC09Timeout struct{}

func (vfC09Timeout) Error() string   { return "i/o timeout (scripted stall outlasts the deadline)" }
func (vfC09Timeout) Timeout() bool   { return true }
func (vfC09Timeout) Temporary() bool { return true }
func (vfC09Timeout) Is(e error) bool { return e == os.ErrDeadlineExceeded }

// the connection handed to dispatchConnection.  The scenario dictates what the server's Reads see:
// each Read returns (at most) the next chunk; after the chunks either EOF, or a stall: a Read with a
// deadline set times out at once (the peer stays silent for ever, so any deadline passes), a Read
// without deadline blocks until the connection is closed or the harness hangs up.
type vfC09Peer struct {
	w        *vfC09World
	chunks   [][]byte
	eof      bool
	hung     bool
	closed   bool
	closes   int
	got      []byte
	writes   int
	rdl      time.Time
	idle     bool
	timeouts int
	// scripted failure of the n-th Write of the server on this connection (1 = the first; 0 = never)
	failWrite  int
	wattempts  int
	failedOnce bool
}

func (c *vfC09Peer) Read(p []byte) (int, error) {
	w := c.w
	w.mu.Lock()
	defer w.mu.Unlock()
	for {
		if c.closed {
			c.idle = false
			return 0, net.ErrClosed
		}
		if len(p) == 0 {
			c.idle = false
			return 0, nil
		}
		if len(c.chunks) > 0 {
			n := copy(p, c.chunks[0])
			if n == len(c.chunks[0]) {
				c.chunks = c.chunks[1:]
			} else {
				c.chunks[0] = c.chunks[0][n:]
			}
			c.idle = false
			w.eventCount++
			return n, nil
		}
		if c.eof || c.hung {
			c.idle = false
			return 0, io.EOF
		}
		if !c.rdl.IsZero() {
			c.idle = false
			c.timeouts++
			return 0, vfC09Timeout{}
		}
		if !c.idle {
			c.idle = true
			w.notify()
		}
		w.cond.Wait()
	}
}

func (c *vfC09Peer) Write(p []byte) (int, error) {
	w := c.w
	w.mu.Lock()
	defer w.mu.Unlock()
	if c.closed {
		return 0, net.ErrClosed
	}
	c.wattempts++
	if c.failWrite != 0 && c.wattempts == c.failWrite {
		c.failedOnce = true
		w.eventCount++
		w.notify()
		return 0, errors.New("scripted write failure (connection reset by peer)")
	}
	c.got = append(c.got, p...)
	c.writes++
	w.eventCount++
	w.notify()
	return len(p), nil
}

func (c *vfC09Peer) Close() error {
	w := c.w
	w.mu.Lock()
	defer w.mu.Unlock()
	c.closes++
	c.closed = true
	w.eventCount++
	w.notify()
	return nil
}
func (c *vfC09Peer) LocalAddr() net.Addr  { return vfC09Addr{"10.0.0.1:443"} }
func (c *vfC09Peer) RemoteAddr() net.Addr { return vfC09Addr{"10.9.9.9:50000"} }
func (c *vfC09Peer) SetDeadline(t time.Time) error {
	c.SetReadDeadline(t)
	return nil
}
func (c *vfC09Peer) SetReadDeadline(t time.Time) error {
	w := c.w
	w.mu.Lock()
	c.rdl = t
	w.notify()
	w.mu.Unlock()
	return nil
}
func (c *vfC09Peer) SetWriteDeadline(t time.Time) error { return nil }

// the server's connection to the redirect target, as handed out by the scripted RedirDialer
type vfC09Web struct {
	w         *vfC09World
	// ordering window of goWeb (prefix replay vs. the relay): the FIRST Write call is parked, see Write
	wcalls    int    // Write calls that have arrived (parked one included)
	parked    bool   // the first Write call is waiting
	overtaken bool   // a second Write call arrived while the first was parked and was served first
	sched     string // what was decided, for the replay
	got       []byte // what the target received
	writes    int
	firstLen  int // length of the first write (the replayed prefix)
	failWrite bool
	replied   bool
	pending   []byte
	hung      bool
	closed    bool
	closes    int
	idle      bool
	rdl       time.Time
}

func (c *vfC09Web) Read(p []byte) (int, error) {
	w := c.w
	w.mu.Lock()
	defer w.mu.Unlock()
	for {
		if c.closed {
			c.idle = false
			return 0, net.ErrClosed
		}
		if len(c.pending) > 0 {
			n := copy(p, c.pending)
			c.pending = c.pending[n:]
			c.idle = false
			w.eventCount++
			return n, nil
		}
		if (c.replied && w.tclose) || c.hung {
			c.idle = false
			return 0, io.EOF
		}
		if !c.rdl.IsZero() {
			c.idle = false
			return 0, vfC09Timeout{}
		}
		if !c.idle {
			c.idle = true
			w.notify()
		}
		w.cond.Wait()
	}
}

// The redirect target's connection is owned by the harness (the dial seam).  goWeb must write the consumed first-packet
// prefix to it BEFORE anything the relay copies from the peer.  To make that order observable whatever the scheduler
// does, the FIRST Write call that arrives here is parked until
//   (a) a second Write call arrives - it is served first, then the parked one (the target sees the permutation), or
//   (b) every other goroutine of the connection under test (frames of dispatchConnection / its closures / common.Copy)
//       has finished or is parked in a Read of one of the two scripted connections: nobody else can write.
// (b) is read off runtime.Stack wait states, polled with runtime.Gosched - no sleep takes part in the decision.
// On the unchanged code the first Write is issued by the dispatching goroutine before any relay goroutine exists, so
// (b) holds at once and nothing changes.
var vfC09ParkFirstTargetWrite = false

var vfC09GoHdr = regexp.MustCompile(`^goroutine (\d+) \[([^\],]+)`)
var vfC09StackBuf = make([]byte, 1<<22)
var vfC09StackMu sync.Mutex

func vfC09Goid() string {
	var buf [64]byte
	n := runtime.Stack(buf[:], false)
	if m := vfC09GoHdr.FindSubmatch(buf[:n]); m != nil {
		return string(m[1])
	}
	return "?"
}

var vfC09GoParent = regexp.MustCompile(`(?m)^created by .* in goroutine (\d+)$`)

// are all OTHER goroutines of THIS connection under test - the goroutine running dispatchConnection (root) and
// everything it (transitively) started - finished or parked in a Read of one of the two scripted connections?
// returns also a short description of the ones that are not
func vfC09OthersQuiet(self, root string) (bool, string) {
	vfC09StackMu.Lock()
	defer vfC09StackMu.Unlock()
	n := runtime.Stack(vfC09StackBuf, true)
	for n == len(vfC09StackBuf) {
		vfC09StackBuf = make([]byte, 2*len(vfC09StackBuf))
		n = runtime.Stack(vfC09StackBuf, true)
	}
	type gor struct{ id, state, parent, body string }
	var all []gor
	for _, g := range strings.Split(string(vfC09StackBuf[:n]), "\n\n") {
		m := vfC09GoHdr.FindStringSubmatch(g)
		if m == nil {
			continue
		}
		parent := ""
		if pm := vfC09GoParent.FindStringSubmatch(g); pm != nil {
			parent = pm[1]
		}
		all = append(all, gor{m[1], m[2], parent, g})
	}
	family := map[string]bool{root: true}
	for changed := true; changed; {
		changed = false
		for _, g := range all {
			if !family[g.id] && family[g.parent] {
				family[g.id] = true
				changed = true
			}
		}
	}
	busy := ""
	for _, g := range all {
		if !family[g.id] || g.id == self {
			continue
		}
		inRead := strings.Contains(g.body, "vfC09Peer).Read") || strings.Contains(g.body, "vfC09Web).Read")
		if g.state == "sync.Cond.Wait" && inRead {
			continue
		}
		busy += "g" + g.id + "[" + g.state + "] "
	}
	return busy == "", busy
}

func (c *vfC09Web) Write(p []byte) (int, error) {
	w := c.w
	w.mu.Lock()
	defer w.mu.Unlock()
	c.wcalls++
	if vfC09ParkFirstTargetWrite && c.wcalls == 1 {
		c.parked = true
		self := vfC09Goid()
		polls := 0
		for !c.overtaken && !c.closed {
			w.mu.Unlock()
			quiet, _ := vfC09OthersQuiet(self, w.rootGoid)
			if !quiet {
				runtime.Gosched()
			}
			w.mu.Lock()
			polls++
			if quiet {
				break
			}
		}
		c.parked = false
		if c.overtaken {
			c.sched = fmt.Sprintf("first-write(%dB)-parked,second-write-served-first,polls=%d", len(p), polls)
		} else {
			c.sched = fmt.Sprintf("first-write(%dB)-parked,no-other-writer-possible,polls=%d", len(p), polls)
		}
	} else if c.parked && !c.overtaken {
		// the second writer while the first is parked: served now, ahead of it
		defer func() {
			c.overtaken = true
			w.notify()
		}()
	}
	if c.closed {
		return 0, net.ErrClosed
	}
	if c.failWrite && c.writes == 0 {
		c.writes++
		w.eventCount++
		w.notify()
		return 0, errors.New("scripted write failure (connection reset by target)")
	}
	if c.writes == 0 {
		c.firstLen = len(p)
	}
	c.writes++
	c.got = append(c.got, p...)
	if !c.replied && len(c.got) >= w.after {
		c.replied = true
		c.pending = append([]byte{}, w.reply...)
	}
	w.eventCount++
	w.notify()
	return len(p), nil
}

func (c *vfC09Web) Close() error {
	w := c.w
	w.mu.Lock()
	defer w.mu.Unlock()
	c.closes++
	c.closed = true
	w.eventCount++
	w.notify()
	return nil
}
func (c *vfC09Web) LocalAddr() net.Addr                { return vfC09Addr{"10.0.0.1:40000"} }
func (c *vfC09Web) RemoteAddr() net.Addr               { return vfC09Addr{"127.0.0.1:80"} }
func (c *vfC09Web) SetDeadline(t time.Time) error      { return c.SetReadDeadline(t) }
func (c *vfC09Web) SetWriteDeadline(t time.Time) error { return nil }
func (c *vfC09Web) SetReadDeadline(t time.Time) error {
	w := c.w
	w.mu.Lock()
	c.rdl = t
	w.notify()
	w.mu.Unlock()
	return nil
}

// common.Dialer
type vfC09Dialer struct{ w *vfC09World }

func (d *vfC09Dialer) Dial(network, address string) (net.Conn, error) {
	w := d.w
	w.mu.Lock()
	defer w.mu.Unlock()
	w.dials++
	w.dialAddr = network + "!" + address
	w.eventCount++
	defer w.notify()
	if w.dialMode == "fail" {
		w.dialErr = true
		return nil, errors.New("scripted dial failure (connection refused)")
	}
	c := &vfC09Web{w: w, failWrite: w.dialMode == "wfail"}
	if w.after <= 0 {
		c.replied = true
		c.pending = append([]byte{}, w.reply...)
	}
	w.web = c
	return c, nil
}

// every event on either connection: wake the parked readers/writers AND the settle waiter
func (w *vfC09World) notify() {
	w.cond.Broadcast()
	select {
	case w.evCh <- struct{}{}:
	default:
	}
}

func vfC09NewWorld(chunks [][]byte, eof bool, dialMode string, reply []byte, after int, tclose bool) *vfC09World {
	w := &vfC09World{dialMode: dialMode, reply: reply, after: after, tclose: tclose}
	w.cond = sync.NewCond(&w.mu)
	w.evCh = make(chan struct{}, 1)
	cp := make([][]byte, 0, len(chunks))
	for _, c := range chunks {
		if len(c) > 0 {
			cp = append(cp, append([]byte{}, c...))
		}
	}
	w.peer = &vfC09Peer{w: w, chunks: cp, eof: eof}
	return w
}

// run dispatchConnection on the world's peer connection (own goroutine: it does not return for sessions)
func (w *vfC09World) start(sta *State) {
	go func() {
		w.mu.Lock()
		w.rootGoid = vfC09Goid()
		w.mu.Unlock()
		defer func() {
			if r := recover(); r != nil {
				buf := make([]byte, 4096)
				n := runtime.Stack(buf, false)
				w.mu.Lock()
				w.panicked = fmt.Sprintf("%v | %s", r, strings.ReplaceAll(string(buf[:n]), "\n", " ; "))
				w.notify()
				w.mu.Unlock()
			}
		}()
		dispatchConnection(w.peer, sta)
		w.mu.Lock()
		w.returned = true
		w.eventCount++
		w.notify()
		w.mu.Unlock()
	}()
}

// C07 only classifies (reply / relay / close / drop): a session is settled with its first server byte
var vfC09QuickSession = false

// must hold w.mu: a reader is parked in Read and there is nothing it could be handed
func (c *vfC09Peer) blocked() bool {
	return c.idle && len(c.chunks) == 0 && !c.eof && !c.hung && c.rdl.IsZero() && !c.closed
}
func (c *vfC09Web) blocked() bool {
	return c.idle && len(c.pending) == 0 && !(c.replied && c.w.tclose) && !c.hung && c.rdl.IsZero() && !c.closed
}

// must hold w.mu.  Has the system reached a state in which nothing further can happen without
// new input from the peer / the harness?
func (w *vfC09World) settled() bool {
	if w.panicked != "" {
		return true
	}
	p := w.peer
	if w.dials == 0 {
		if len(p.got) > 0 {
			// the server answered itself (session): settled when it is back waiting for the peer
			return vfC09QuickSession || p.blocked() || p.closed
		}
		return w.returned || p.closed
	}
	if w.dialErr {
		return w.returned
	}
	if w.web == nil || !w.returned || w.web.parked {
		return false
	}
	if p.closed && w.web.closed {
		return true
	}
	return p.blocked() && w.web.blocked()
}

// Is every goroutine of this connection (root = the goroutine running dispatchConnection, plus everything it
// transitively started) finished or BLOCKED - in a channel operation, a select, a condition variable, a sleep or I/O -
// in `glances` consecutive looks at runtime.Stack (yielding in between)?  A goroutine that is running, runnable (be it
// starved by other processes for seconds), in a syscall or queueing for a mutex is "moving": then nothing may be
// concluded yet.  Returns the moving ones for the log.
func vfC09FamilyStuck(root string, glances int) (bool, string) {
	for i := 0; i < glances; i++ {
		vfC09StackMu.Lock()
		n := runtime.Stack(vfC09StackBuf, true)
		for n == len(vfC09StackBuf) {
			vfC09StackBuf = make([]byte, 2*len(vfC09StackBuf))
			n = runtime.Stack(vfC09StackBuf, true)
		}
		type gor struct{ id, state, parent string }
		var all []gor
		for _, g := range strings.Split(string(vfC09StackBuf[:n]), "\n\n") {
			m := vfC09GoHdr.FindStringSubmatch(g)
			if m == nil {
				continue
			}
			parent := ""
			if pm := vfC09GoParent.FindStringSubmatch(g); pm != nil {
				parent = pm[1]
			}
			all = append(all, gor{m[1], m[2], parent})
		}
		vfC09StackMu.Unlock()
		family := map[string]bool{root: true}
		for changed := true; changed; {
			changed = false
			for _, g := range all {
				if !family[g.id] && family[g.parent] {
					family[g.id] = true
					changed = true
				}
			}
		}
		moving := ""
		for _, g := range all {
			if !family[g.id] {
				continue
			}
			switch {
			case g.state == "sync.Cond.Wait", strings.HasPrefix(g.state, "chan "), strings.HasPrefix(g.state, "select"),
				g.state == "sleep", g.state == "IO wait", g.state == "sync.WaitGroup.Wait":
			default:
				moving += "g" + g.id + "[" + g.state + "] "
			}
		}
		if moving != "" {
			return false, moving
		}
		runtime.Gosched()
	}
	return true, ""
}

// Wait until the scenario has settled.  If it has not after `grace`, it is reported as unsettled (e.g. a connection left
// open with nobody reading from it) ONLY when nothing can move any more: no goroutine of the connection is running or
// runnable and no event has happened between two such looks.  Wall-clock time decides nothing: on a starved machine a
// runnable goroutine may wait for seconds, and then so does this function.  `hard` is a last-resort bound; hitting it
// is reported as such (HardTimeout) and never taken for a verdict about the code.
func (w *vfC09World) waitSettled(grace, hard time.Duration) (unsettled bool) {
	t0 := time.Now()
	w.mu.Lock()
	defer w.mu.Unlock()
	var stableSince time.Time
	lastEvents := -1
	stuckAt := -1 // eventCount at the last look that found every goroutine blocked
	for {
		if w.settled() {
			// sessions (server-originated writes) are confirmed by 3 ms without any event: the WebSocket
			// path writes the HTTP 101 and the reply frame separately
			if w.dials == 0 && len(w.peer.got) > 0 && w.panicked == "" && !vfC09QuickSession {
				if lastEvents != w.eventCount {
					lastEvents = w.eventCount
					stableSince = time.Now()
				} else if time.Since(stableSince) >= 3*time.Millisecond {
					return false
				}
			} else if vfC09ParkFirstTargetWrite && w.dials > 0 && !w.dialErr && w.panicked == "" {
				// a relayed connection is settled only if no goroutine of it is still on its way to one of the two
				// connections (e.g. a prefix write handed to a goroutine that has not run yet)
				root := w.rootGoid
				w.mu.Unlock()
				quiet, busy := false, ""
				for i := 0; i < 400 && !quiet; i++ {
					if quiet, busy = vfC09OthersQuiet("", root); !quiet {
						runtime.Gosched()
					}
				}
				w.mu.Lock()
				w.lastBusy = busy
				if quiet && w.settled() {
					return false
				}
			} else {
				return false
			}
		} else if time.Since(t0) > grace {
			ev, root := w.eventCount, w.rootGoid
			w.mu.Unlock()
			stuck, moving := vfC09FamilyStuck(root, 3)
			w.mu.Lock()
			w.lastBusy = moving
			if stuck && ev == w.eventCount && !w.settled() {
				if stuckAt == ev {
					return true // twice in a row, nothing in between: this is how it stays
				}
				stuckAt = ev
			} else {
				stuckAt = -1
			}
		}
		if time.Since(t0) > hard {
			w.hardTimeout = true
			return true
		}
		// wait for the next event (every event signals evCh) or a millisecond, whichever comes first; parked readers
		// are NOT woken by this
		w.mu.Unlock()
		select {
		case <-w.evCh:
		case <-time.After(time.Millisecond):
		}
		w.mu.Lock()
	}
}

type vfC09Obs struct {
	Ret, Unsettled    bool
	Dials             int
	DialAddr          string
	Target            []byte
	FirstLen          int
	Peer              []byte
	PeerClosed        bool
	WebClosed         bool
	HasWeb            bool
	Panicked          string
	PeerIdle, WebIdle bool
	FinPeerClosed     bool
	FinWebClosed      bool
	FinUnsettled      bool
	FinTarget         []byte
	FinPeer           []byte
	FinDials          int  // redirect dials over the whole life of the connection (phase 1 + after the hang-up)
	FinRet            bool // dispatchConnection had returned at the end of phase 2
	PeerWFailed       bool // the scripted write failure was hit
	Busy              string
	HardTimeout       bool // a last-resort time bound was hit: the machine was starved, the observation is no verdict
	TargetSched       string // how the first Write on the target connection was scheduled (ordering window of goWeb)
}

// execute one scenario: phase 1 = until settled; phase 2 = the peer hangs up, until settled again
func vfC09RunScenario(sta *State, chunks [][]byte, eof bool, dialMode string, reply []byte, after int, tclose bool) vfC09Obs {
	return vfC09RunScenarioX(sta, chunks, eof, dialMode, reply, after, tclose, 0)
}

// pwfail: the n-th Write of the server on the PEER connection fails (0 = never)
func vfC09RunScenarioX(sta *State, chunks [][]byte, eof bool, dialMode string, reply []byte, after int, tclose bool, pwfail int) vfC09Obs {
	w := vfC09NewWorld(chunks, eof, dialMode, reply, after, tclose)
	w.peer.failWrite = pwfail
	sta.RedirDialer = &vfC09Dialer{w}
	w.start(sta)
	var o vfC09Obs
	o.Unsettled = w.waitSettled(150*time.Millisecond, 120*time.Second)
	w.mu.Lock()
	o.Busy = w.lastBusy
	o.HardTimeout = w.hardTimeout
	o.Ret = w.returned
	o.Dials = w.dials
	o.DialAddr = w.dialAddr
	o.Panicked = w.panicked
	o.Peer = append([]byte{}, w.peer.got...)
	o.PeerClosed = w.peer.closed
	o.PeerIdle = w.peer.idle
	if w.web != nil {
		o.HasWeb = true
		o.Target = append([]byte{}, w.web.got...)
		o.FirstLen = w.web.firstLen
		o.WebClosed = w.web.closed
		o.WebIdle = w.web.idle
	}
	// phase 2: hang up
	w.peer.hung = true
	if w.web != nil {
		w.web.hung = w.web.hung || false
	}
	w.notify()
	w.mu.Unlock()
	if o.Panicked == "" {
		w.mu.Lock()
		t0 := time.Now()
		session := w.dials == 0 && len(w.peer.got) > 0 && !vfC09QuickSession
		stuckAt := -1
		for {
			done := w.peer.closed && (w.web == nil || w.web.closed)
			// a served session ends with dispatchConnection returning (http.Serve / serveSession come back once
			// the session is closed): wait for that too, so that anything it does afterwards is observed
			if done && (!session || w.returned) {
				break
			}
			// not there yet: it is final only when no goroutine of the connection can move any more (looked at
			// twice with no event in between) - never because some amount of wall-clock time has passed
			if time.Since(t0) > 5*time.Millisecond {
				ev, root := w.eventCount, w.rootGoid
				w.mu.Unlock()
				stuck, _ := vfC09FamilyStuck(root, 3)
				w.mu.Lock()
				if stuck && ev == w.eventCount {
					if stuckAt == ev {
						o.FinUnsettled = !(w.peer.closed && (w.web == nil || w.web.closed))
						break
					}
					stuckAt = ev
				} else {
					stuckAt = -1
				}
			}
			if time.Since(t0) > 60*time.Second {
				w.hardTimeout = true
				o.FinUnsettled = !done
				break
			}
			w.mu.Unlock()
			select {
			case <-w.evCh:
			case <-time.After(500 * time.Microsecond):
			}
			w.mu.Lock()
		}
		o.HardTimeout = w.hardTimeout
		o.FinPeerClosed = w.peer.closed
		o.FinPeer = append([]byte{}, w.peer.got...)
		o.FinDials = w.dials
		o.FinRet = w.returned
		o.PeerWFailed = w.peer.failedOnce
		if w.web != nil {
			o.TargetSched = w.web.sched
		}
		if w.web != nil {
			o.FinWebClosed = w.web.closed
			o.FinTarget = append([]byte{}, w.web.got...)
		}
		// release everything that might still be blocked
		w.peer.closed = true
		if w.web != nil {
			w.web.closed = true
		}
		w.notify()
		w.mu.Unlock()
	}
	return o
}

func (o vfC09Obs) String() string {
	web := "-"
	if o.HasWeb {
		web = vfC09B(o.WebClosed)
	}
	fweb := "-"
	if o.HasWeb {
		fweb = vfC09B(o.FinWebClosed)
	}
	s := fmt.Sprintf("ret=%s dials=%d tgt=%s first=%d peer=%s pc=%s wc=%s uns=%s fin=%s%s ftgt=%s fpeer=%s fdials=%d fret=%s pwf=%s",
		vfC09B(o.Ret), o.Dials, vfC09Hex(o.Target), o.FirstLen, vfC09Hex(o.Peer), vfC09B(o.PeerClosed), web,
		vfC09B(o.Unsettled), vfC09B(o.FinPeerClosed), fweb, vfC09Hex(o.FinTarget), vfC09Hex(o.FinPeer), o.FinDials,
		vfC09B(o.FinRet), vfC09B(o.PeerWFailed))
	if o.DialAddr != "" {
		s += " addr=" + o.DialAddr
	}
	if o.TargetSched != "" {
		s += " tsched=" + o.TargetSched
	}
	if o.HardTimeout {
		s += " hard=1"
	}
	if o.Unsettled && o.Busy != "" {
		s += " busy=" + strings.ReplaceAll(strings.TrimSpace(o.Busy), " ", ",")
	}
	if o.Panicked != "" {
		s += " PANIC=" + strings.ReplaceAll(o.Panicked, " ", "_")
	}
	return s
}

// ------------------------------------------------------------------------------------------
// State from a spec

type vfC09UserSpec struct {
	UID      string `json:"uid"`
	Up       int64  `json:"up"`
	Down     int64  `json:"down"`
	Exp      int64  `json:"exp"`
	Cap      int32  `json:"cap"`
	UpRate   int64  `json:"uprate"`
	DownRate int64  `json:"downrate"`
}
type vfC09ActiveSpec struct {
	UID    string   `json:"uid"`
	Bypass bool     `json:"bypass"`
	Sids   []uint32 `json:"sids"`
}
type vfC09StateSpec struct {
	Name   string            `json:"state"`
	Pv     string            `json:"pv"`
	Admin  string            `json:"admin"`
	Bypass []string          `json:"bypass"`
	Book   []string          `json:"book"`
	Users  []vfC09UserSpec   `json:"users"`
	Used   []string          `json:"used"`
	Active []vfC09ActiveSpec `json:"active"`
	NoDB   bool              `json:"nodb"`
}

type vfC09StateFactory struct {
	// mk, when set, builds the State some other way (C07: through the real InitState from a RawConfig)
	mk      func(nowNs int64) *State
	spec    vfC09StateSpec
	manager usermanager.UserManager
	nowNs   *int64
	dir     string
}

var vfC09TmpDirs []string

func vfC09MakeFactory(spec vfC09StateSpec) (*vfC09StateFactory, error) {
	f := &vfC09StateFactory{spec: spec, nowNs: new(int64)}
	if spec.NoDB {
		f.manager = &usermanager.Voidmanager{}
		return f, nil
	}
	dir, err := os.MkdirTemp("", "vfc09db")
	if err != nil {
		return nil, err
	}
	vfC09TmpDirs = append(vfC09TmpDirs, dir)
	f.dir = dir
	ws := common.WorldState{Rand: crand.Reader, Now: func() time.Time { return time.Unix(0, *f.nowNs) }}
	m, err := usermanager.MakeLocalManager(filepath.Join(dir, "users.db"), ws)
	if err != nil {
		return nil, err
	}
	for _, u := range spec.Users {
		err = m.WriteUserInfo(usermanager.UserInfo{UID: vfC09Unhex(u.UID), SessionsCap: usermanager.JustInt32(u.Cap),
			UpRate: usermanager.JustInt64(u.UpRate), DownRate: usermanager.JustInt64(u.DownRate),
			UpCredit: usermanager.JustInt64(u.Up), DownCredit: usermanager.JustInt64(u.Down),
			ExpiryTime: usermanager.JustInt64(u.Exp)})
		if err != nil {
			return nil, err
		}
	}
	f.manager = m
	return f, nil
}

func vfC09Cleanup() {
	for _, d := range vfC09TmpDirs {
		os.RemoveAll(d)
	}
}

// a fresh State per case: fresh replay cache, fresh panel (hand-built: MakeUserPanel would start
// regularQueueUpload, InitState would start UsedRandomCleaner - neither is wanted here)
func (f *vfC09StateFactory) fresh(nowNs int64) *State {
	if f.mk != nil {
		return f.mk(nowNs)
	}
	*f.nowNs = nowNs
	spec := f.spec
	var pv [32]byte
	copy(pv[:], vfC09Unhex(spec.Pv))
	sta := &State{
		ProxyBook:  map[string]net.Addr{},
		BypassUID:  map[[16]byte]struct{}{},
		UsedRandom: map[[32]byte]int64{},
		WorldState: common.WorldState{Rand: crand.Reader, Now: func() time.Time { return time.Unix(0, nowNs) }},
		StaticPv:   &pv,
		RedirHost:  &net.IPAddr{IP: net.ParseIP("127.0.0.1")},
		RedirPort:  "80",
	}
	if spec.Admin != "" && spec.Admin != "-" {
		sta.AdminUID = vfC09Unhex(spec.Admin)
	}
	for _, b := range spec.Bypass {
		var a [16]byte
		copy(a[:], vfC09Unhex(b))
		sta.BypassUID[a] = struct{}{}
	}
	for _, n := range spec.Book {
		sta.ProxyBook[n] = &net.TCPAddr{IP: net.ParseIP("127.0.0.1"), Port: 9}
	}
	for _, u := range spec.Used {
		var a [32]byte
		copy(a[:], vfC09Unhex(u))
		sta.UsedRandom[a] = nowNs / 1e9
	}
	panel := &userPanel{
		Manager:          f.manager,
		activeUsers:      make(map[[16]byte]*ActiveUser),
		usageUpdateQueue: make(map[[16]byte]*usagePair),
		uploadInterval:   defaultUploadInterval,
	}
	for _, a := range spec.Active {
		u := &ActiveUser{panel: panel, valve: mux.UNLIMITED_VALVE, sessions: make(map[uint32]*mux.Session), bypass: a.Bypass}
		copy(u.arrUID[:], vfC09Unhex(a.UID))
		for _, sid := range a.Sids {
			var key [32]byte
			obf, _ := mux.MakeObfuscator(mux.EncryptionMethodPlain, key)
			u.sessions[sid] = mux.MakeSession(sid, mux.SessionConfig{Obfuscator: obf, Valve: mux.UNLIMITED_VALVE})
		}
		panel.activeUsers[u.arrUID] = u
	}
	sta.Panel = panel
	sta.ProxyDialer = &vfC09Dialer{vfC09NewWorld(nil, true, "fail", nil, 0, false)}
	return sta
}

// ------------------------------------------------------------------------------------------
// genuine first packets from the real client package

type vfC09Rec struct {
	mu   sync.Mutex
	buf  []byte
	wr   chan struct{}
	once sync.Once
}

func (r *vfC09Rec) Read(p []byte) (int, error) { return 0, io.EOF }
func (r *vfC09Rec) Write(p []byte) (int, error) {
	r.mu.Lock()
	r.buf = append(r.buf, p...)
	r.mu.Unlock()
	r.once.Do(func() { close(r.wr) })
	return len(p), nil
}
func (r *vfC09Rec) Close() error                       { return nil }
func (r *vfC09Rec) LocalAddr() net.Addr                { return vfC09Addr{"10.9.9.9:50000"} }
func (r *vfC09Rec) RemoteAddr() net.Addr               { return vfC09Addr{"10.0.0.1:443"} }
func (r *vfC09Rec) SetDeadline(t time.Time) error      { return nil }
func (r *vfC09Rec) SetReadDeadline(t time.Time) error  { return nil }
func (r *vfC09Rec) SetWriteDeadline(t time.Time) error { return nil }

type vfC09GenSpec struct {
	ID        string `json:"id"`
	Kind      string `json:"kind"` // tls | ws
	Browser   string `json:"browser"`
	UID       string `json:"uid"`
	Sid       uint32 `json:"sid"`
	Method    string `json:"method"`
	Enc       byte   `json:"enc"`
	Unordered bool   `json:"unordered"`
	Ts        int64  `json:"ts"`  // the client's clock, Unix seconds
	Pub       string `json:"pub"` // server static public key (or:)
	Pv        string `json:"pv"`  // server static private key, from which the public key is derived
	Seed      int64  `json:"seed"`
	Domain    string `json:"domain"`
	// kind "seal": the 64-byte block AES-256-GCM(Key, Nonce, 48-byte plaintext of this spec) - what a forger who
	// chose the AEAD key himself would put into a first packet
	Key   string `json:"key"`
	Nonce string `json:"nonce"`
}

// the 48-byte authentication plaintext as the property text documents it:
// UID16 | method12 | enc1 | ts8 | sid4 | flags1 | rsvd6   (written from the statement, not from client/auth.go)
func vfC09Plaintext(g vfC09GenSpec) []byte {
	pt := make([]byte, 48)
	copy(pt[0:16], vfC09Unhex(g.UID))
	copy(pt[16:28], []byte(g.Method))
	pt[28] = g.Enc
	binary.BigEndian.PutUint64(pt[29:37], uint64(g.Ts))
	binary.BigEndian.PutUint32(pt[37:41], g.Sid)
	if g.Unordered {
		pt[41] |= 1
	}
	return pt
}

// AES-256-GCM straight from the standard library (not through internal/common)
func vfC09Seal(g vfC09GenSpec) ([]byte, error) {
	key, nonce := vfC09Unhex(g.Key), vfC09Unhex(g.Nonce)
	if len(key) != 32 || len(nonce) != 12 {
		return nil, errors.New("seal: key must be 32 bytes, nonce 12")
	}
	blk, err := aes.NewCipher(key)
	if err != nil {
		return nil, err
	}
	aead, err := cipher.NewGCM(blk)
	if err != nil {
		return nil, err
	}
	return aead.Seal(nil, nonce, vfC09Plaintext(g), nil), nil
}

func vfC09PubOf(pvHex string) []byte {
	var pv [32]byte
	copy(pv[:], vfC09Unhex(pvHex))
	pub, err := curve25519.X25519(pv[:], curve25519.Basepoint)
	if err != nil {
		panic(err)
	}
	return pub
}

func vfC09AuthInfo(g vfC09GenSpec) (client.AuthInfo, client.RemoteConnConfig, error) {
	transport := "direct"
	if g.Kind == "ws" {
		transport = "cdn"
	}
	dom := g.Domain
	if dom == "" {
		dom = "www.bing.com"
	}
	if g.Pub == "" {
		g.Pub = hex.EncodeToString(vfC09PubOf(g.Pv))
	}
	raw := client.RawConfig{ServerName: dom, ProxyMethod: "x", EncryptionMethod: "plain", UID: vfC09Unhex(g.UID),
		PublicKey: vfC09Unhex(g.Pub), NumConn: 1, LocalHost: "127.0.0.1", LocalPort: "1", RemoteHost: "10.0.0.1",
		RemotePort: "443", BrowserSig: g.Browser, Transport: transport}
	rng := mrand.New(mrand.NewSource(g.Seed))
	ts := g.Ts
	ws := common.WorldState{Rand: rng, Now: func() time.Time { return time.Unix(ts, 0) }}
	_, remote, auth, err := raw.ProcessRawConfig(ws)
	if err != nil {
		return auth, remote, err
	}
	auth.ProxyMethod = g.Method
	auth.EncryptionMethod = g.Enc
	auth.SessionId = g.Sid
	auth.Unordered = g.Unordered
	return auth, remote, nil
}

var vfC09CertOnce sync.Once
var vfC09Cert tls.Certificate

func vfC09SelfSigned() tls.Certificate {
	vfC09CertOnce.Do(func() {
		key, err := ecdsa.GenerateKey(elliptic.P256(), crand.Reader)
		if err != nil {
			panic(err)
		}
		tmpl := &x509.Certificate{SerialNumber: big.NewInt(1), Subject: pkix.Name{CommonName: "cdn"},
			NotBefore: time.Now().Add(-time.Hour), NotAfter: time.Now().Add(24 * time.Hour),
			KeyUsage: x509.KeyUsageDigitalSignature, ExtKeyUsage: []x509.ExtKeyUsage{x509.ExtKeyUsageServerAuth},
			DNSNames: []string{"www.bing.com"}}
		der, err := x509.CreateCertificate(crand.Reader, tmpl, tmpl, &key.PublicKey, key)
		if err != nil {
			panic(err)
		}
		vfC09Cert = tls.Certificate{Certificate: [][]byte{der}, PrivateKey: key}
	})
	return vfC09Cert
}

// the first packet a real client of the given configuration sends
func vfC09GenPacket(g vfC09GenSpec) ([]byte, error) {
	auth, remote, err := vfC09AuthInfo(g)
	if err != nil {
		return nil, err
	}
	tr := remote.Transport.CreateTransport()
	if g.Kind == "tls" {
		rec := &vfC09Rec{wr: make(chan struct{})}
		go func() { tr.Handshake(rec, auth) }() // returns with EOF after the write
		select {
		case <-rec.wr:
		case <-time.After(10 * time.Second):
			return nil, errors.New("client wrote nothing")
		}
		time.Sleep(time.Millisecond)
		rec.mu.Lock()
		defer rec.mu.Unlock()
		return append([]byte{}, rec.buf...), nil
	}
	// WebSocket: the client speaks TLS to a CDN which forwards the plain HTTP request; a crypto/tls
	// server with a throw-away certificate plays the CDN and we take what it decrypts
	c1, c2 := connutil.AsyncPipe()
	res := make(chan []byte, 1)
	errc := make(chan error, 2)
	go func() {
		srv := tls.Server(c2, &tls.Config{Certificates: []tls.Certificate{vfC09SelfSigned()}})
		if err := srv.Handshake(); err != nil {
			errc <- fmt.Errorf("cdn handshake: %v", err)
			return
		}
		var acc []byte
		buf := make([]byte, 4096)
		for !bytes.Contains(acc, []byte("\r\n\r\n")) {
			n, err := srv.Read(buf)
			acc = append(acc, buf[:n]...)
			if err != nil {
				errc <- fmt.Errorf("cdn read: %v", err)
				return
			}
		}
		res <- acc
		c2.Close()
	}()
	go func() {
		_, err := tr.Handshake(c1, auth)
		if err != nil {
			errc <- nil // expected: the "CDN" hangs up after the request
		}
		c1.Close()
	}()
	for {
		select {
		case p := <-res:
			return p, nil
		case e := <-errc:
			if e != nil {
				return nil, e
			}
		case <-time.After(10 * time.Second):
			return nil, errors.New("ws client timeout")
		}
	}
}

// ------------------------------------------------------------------------------------------
// tables for the extracted model: the two things it takes as parameters

// X25519(staticPv, pub) as the server computes it: hex of the shared secret, or "!" on error
func vfC09DH(pv []byte, pub []byte) string {
	var p [32]byte
	copy(p[:], pv)
	var q [32]byte
	copy(q[:], pub)
	qk, ok := ecdh.Unmarshal(q[:])
	if !ok {
		return "!"
	}
	s, err := ecdh.GenerateSharedSecret(&p, qk)
	if err != nil {
		return "!"
	}
	return hex.EncodeToString(s)
}

// net/http + base64 black box of WebSocket.processFirstPacket: the decoded `hidden` header, "!" if the
// request does not parse
func vfC09Hidden(reqPacket []byte) string {
	req, err := http.ReadRequest(bufio.NewReader(bytes.NewBuffer(reqPacket)))
	if err != nil {
		return "!"
	}
	h, _ := base64.StdEncoding.DecodeString(req.Header.Get("hidden"))
	return vfC09Hex(h)
}

// what readFirstPacket hands to AuthFirstPacket for this stream (used only to fill the tables)
func vfC09FirstData(stream []byte, eof bool) (data []byte, tr Transport, redir bool, err error) {
	w := vfC09NewWorld([][]byte{stream}, eof, "fail", nil, 0, false)
	buf := make([]byte, firstPacketSize)
	n, tr, redir, err := readFirstPacket(w.peer, buf, 15*time.Second)
	return buf[:n], tr, redir, err
}

// error class of AuthFirstPacket / processFirstPacket, by the sentinel or the message
func vfC09ErrClass(err error) string {
	if err == nil {
		return "ok"
	}
	m := err.Error()
	switch {
	case errors.Is(err, ErrReplay):
		return "replay"
	case errors.Is(err, ErrBadDecryption) && strings.Contains(m, ErrTimestampOutOfWindow.Error()):
		return "window"
	case errors.Is(err, ErrBadDecryption):
		return "decrypt"
	case err == ErrBadClientHello:
		return "parse:hello"
	case strings.Contains(m, "malformed key_share"):
		return "parse:ks-malformed"
	case strings.Contains(m, "key share length should be 32"):
		return "parse:ks-len"
	case strings.Contains(m, "x25519 does not exist"):
		return "parse:no-x25519"
	case strings.Contains(m, ErrCiphertextLength.Error()):
		return "parse:ctlen"
	case strings.Contains(m, ErrInvalidPubKey.Error()):
		return "parse:pub"
	case strings.Contains(m, "failed to parse first HTTP GET"):
		return "parse:http"
	case strings.Contains(m, ErrBadGET.Error()):
		return "parse:badget"
	case strings.Contains(m, "bad input point") || strings.Contains(m, "low order") || strings.Contains(m, "bad X25519 remote ECDH input"):
		return "parse:dh"
	}
	return "other:" + strings.ReplaceAll(m, " ", "_")
}
