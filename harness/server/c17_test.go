package server

// C17 driver (also used by C16): lock-step scenarios on the real panel (engine in
// c17_common_test.go) and the replay of finding F5 through the REAL dispatchConnection with a real
// client handshake and the schedule point dispatch.gotUser.
//
// input (VERIF_IN), one scenario per line:  <id> <cfg> <now> <users> <step> ...   (see ocaml/c17_driver.ml)
//        or the line  !f5real
// output (VERIF_OUT): "#cfg patched=<0|1>", then per scenario
//    <id> <observation> ...
//    #replay <id> <cfg> <now> <users> <steps with the byte counts the connections saw>
//    #ses <id> <k>:<uid>:<closed>:<bornDead>:<bytes read by deplex>:<bytes written by the switchboard>:<of which notice frame> ...
//    #orph <id> <k>,...      live sessions the panel cannot reach at the end (quiescent scenarios)
//    #blocked <id> <t>,...   threads still waiting for a lock at the end although nobody is parked
//    #hang <id> <file>       goroutine dump
// and for !f5real:  #f5real orphan=<0|1> second_record=<0|1> active_after=<0|1> key2=<0|1> err=<...>

import (
	"fmt"
	"io"
	"net"
	"testing"
	"time"

	crand "crypto/rand"

	"github.com/cbeuw/Cloak/internal/client"
	"github.com/cbeuw/Cloak/internal/common"
	"github.com/cbeuw/Cloak/internal/ecdh"
)

type vfC17NullDialer struct{}

func (vfC17NullDialer) Dial(network, address string) (net.Conn, error) {
	a, b := net.Pipe()
	go io.Copy(io.Discard, b)
	return a, nil
}

// one real client connection against the real dispatcher; returns the thread (server side) and
// a channel with the client's verdict
type vfC17RealRes struct {
	key [32]byte
	err error
}

func (r *vfC17Rig) realDispatch(sta *State, pub interface{}, uid int, sid uint32, armed bool) (*vfC17Thr, chan vfC17RealRes, net.Conn) {
	cEnd, sEnd := net.Pipe()
	res := make(chan vfC17RealRes, 1)
	t := r.spawn('D', armed, func(t *vfC17Thr) { dispatchConnection(sEnd, sta) })
	go func() {
		var tls client.DirectTLS
		ai := client.AuthInfo{UID: vfC17UID(uid), SessionId: sid, ProxyMethod: "vfc17", EncryptionMethod: 1,
			ServerPubKey: pub, MockDomain: "www.example.com", WorldState: sta.WorldState}
		key, err := tls.Handshake(cEnd, ai)
		res <- vfC17RealRes{key, err}
		io.Copy(io.Discard, cEnd) // net.Pipe is synchronous: keep reading what the server sends (notice frames)
	}()
	return t, res, cEnd
}

func vfC17F5Real(dir string) string {
	r, err := vfC17NewRig(dir, "f5real", 1000, "1:4:100000:100000:2000")
	if err != nil {
		return "#f5real err=" + err.Error()
	}
	SetVerifHook(vfC17HookCallback)
	defer SetVerifHook(nil)
	pv, pub, _ := ecdh.GenerateKey(crand.Reader)
	sta := &State{
		ProxyBook:   map[string]net.Addr{"vfc17": &net.TCPAddr{IP: net.ParseIP("127.0.0.1"), Port: 9}},
		ProxyDialer: vfC17NullDialer{},
		RedirDialer: vfC17NullDialer{},
		BypassUID:   map[[16]byte]struct{}{},
		UsedRandom:  map[[32]byte]int64{},
		WorldState:  common.WorldState{Rand: crand.Reader, Now: func() time.Time { return time.Unix(*r.nowSec, 0) }},
		StaticPv:    pv,
		RedirHost:   &net.IPAddr{IP: net.ParseIP("127.0.0.1")},
		RedirPort:   "80",
		Panel:       r.panel,
	}
	wait := func(c chan vfC17RealRes) (vfC17RealRes, bool) {
		select {
		case x := <-c:
			return x, true
		case <-time.After(10 * time.Second):
			return vfC17RealRes{}, false
		}
	}
	var arr [16]byte
	copy(arr[:], vfC17UID(1))
	// 1. first connection, session id 1
	_, res1, _ := r.realDispatch(sta, pub, 1, 1, false)
	x1, ok := wait(res1)
	if !ok || x1.err != nil {
		return fmt.Sprintf("#f5real err=first-handshake-%v-%v", ok, x1.err)
	}
	r.settle()
	r.panel.activeUsersM.RLock()
	user0 := r.panel.activeUsers[arr]
	r.panel.activeUsersM.RUnlock()
	if user0 == nil {
		return "#f5real err=no-active-user-after-first-connection"
	}
	user0.sessionsM.RLock()
	sesh1 := user0.sessions[1]
	user0.sessionsM.RUnlock()
	// 2. second connection (session id 2): the dispatcher resolves the user and is held at dispatch.gotUser
	t2, res2, _ := r.realDispatch(sta, pub, 1, 2, true)
	for i := 0; i < 100000 && !t2.parked.Load(); i++ {
		time.Sleep(100 * time.Microsecond)
	}
	if !t2.parked.Load() {
		return "#f5real err=second-dispatcher-did-not-reach-the-schedule-point"
	}
	// 3. the first session ends: serveSession -> CloseSession(1) -> last session -> TerminateActiveUser
	sesh1.Close()
	r.settle()
	activeAfterClose := r.panel.isActive(vfC17UID(1))
	// 4. the dispatcher continues: GetSession on the record it resolved
	t2.release <- struct{}{}
	x2, ok2 := wait(res2)
	r.settle()
	key2 := ok2 && x2.err == nil
	// 5. is the session the client now holds known to the panel?
	active := r.panel.isActive(vfC17UID(1))
	user0.sessionsM.RLock()
	sesh2dead := user0.sessions[2]
	user0.sessionsM.RUnlock()
	orphan := sesh2dead != nil && !sesh2dead.IsClosed() && !active
	// 6. the next connection of the same user
	_, res3, _ := r.realDispatch(sta, pub, 1, 3, false)
	x3, ok3 := wait(res3)
	r.settle()
	r.panel.activeUsersM.RLock()
	user1 := r.panel.activeUsers[arr]
	r.panel.activeUsersM.RUnlock()
	second := ok3 && x3.err == nil && user1 != nil && user1 != user0 && user1.valve != user0.valve &&
		sesh2dead != nil && !sesh2dead.IsClosed()
	line := fmt.Sprintf("#f5real orphan=%s second_record=%s active_after_close=%s active_after=%s key2=%s err=-",
		vfC17B(orphan), vfC17B(second), vfC17B(activeAfterClose), vfC17B(active), vfC17B(key2))
	// cleanup
	if sesh2dead != nil {
		sesh2dead.Close()
	}
	if user1 != nil {
		user1.closeAllSessions("")
	}
	r.settle()
	return line
}

func TestVerifC17(t *testing.T) {
	vfC17RunFile(t, func(dir, line string) string {
		if line == "!f5real" {
			return vfC17F5Real(dir)
		}
		return "#unknown " + line
	})
}
