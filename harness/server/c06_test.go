package server

// C06 driver: real client transports (client.DirectTLS / client.WSOverTLS .Handshake) against the real
// dispatchConnection over tapped in-memory connections, plus decryptClientInfo on crafted plaintexts.
//
// input lines:
//   <id> HS <direct|cdn> <chrome|firefox|safari> <encName> <sid dec> <unordered 0|1> <serverName hex>
//           <uid hex> <method hex> <serverNow ns dec> <clientNow ns dec> <seed>
//   <id> D <plaintext hex (48 bytes)> <serverNow sec dec> <nsec dec>
// output lines: <id> key=value ...  (see vfC06Handshake)

import (
	"bytes"
	"crypto/aes"
	"crypto/cipher"
	"encoding/base64"
	"encoding/binary"
	"fmt"
	"strconv"
	"strings"
	"sync"
	"testing"
	"time"

	"github.com/cbeuw/Cloak/internal/common"
	mux "github.com/cbeuw/Cloak/internal/multiplex"
	"golang.org/x/crypto/curve25519"
)

type vfC06Result struct {
	key [32]byte
	err error
}

func vfC06Handshake(id string, f []string) string {
	// f: transport browser enc sid unordered serverName uid method serverNow clientNow seed
	sid64, _ := strconv.ParseUint(f[3], 10, 32)
	snow, _ := strconv.ParseInt(f[8], 10, 64)
	cnow, _ := strconv.ParseInt(f[9], 10, 64)
	seed := f[10]
	cfg := vfC06Cfg{
		transport: f[0], browser: f[1], encName: f[2], sid: uint32(sid64), unordered: f[4] == "1",
		serverName: string(vfC06Unhex(f[5])), uid: vfC06Unhex(f[6]), method: string(vfC06Unhex(f[7])),
		clientNow: time.Unix(0, cnow), seed: seed,
	}
	k := vfC06MakeKeys(seed)
	panel := vfC06NewPanel()
	serverNow := time.Unix(0, snow)
	srv := vfC06NewServer(k, cfg.uid, cfg.method, serverNow, seed, panel)
	cl, err := vfC06NewClient(k, cfg)
	if err != nil {
		return fmt.Sprintf("%s cfgerr=%q", id, err.Error())
	}
	cdn := cfg.transport == "cdn"
	link := vfC06Connect(srv, cdn)
	resCh := make(chan vfC06Result, 1)
	go func() {
		key, err := cl.tr.Handshake(link.clientEnd, cl.auth)
		resCh <- vfC06Result{key, err}
	}()
	var res vfC06Result
	timedOut := false
	select {
	case res = <-resCh:
	case <-time.After(30 * time.Second):
		timedOut = true
		link.clientEnd.Close()
		res = <-resCh
	}
	rd, wr, _ := link.tap.snapshot()

	var tr Transport = TLS{}
	trName := "tls"
	fp := rd
	reply := wr
	if cdn {
		tr = WebSocket{}
		trName = "ws"
		reply = vfC06WsFirstMessage(wr)
	}
	out := fmt.Sprintf("%s tr=%s ok=%s timeout=%s", id, trName, vfC06B(res.err == nil), vfC06B(timedOut))
	if res.err == nil {
		out += " ckey=" + vfC06Hex(res.key[:])
	} else {
		out += " ckey=-"
	}
	// the server's own view: the session the panel holds for (uid, sid)
	if sesh := vfC06FindSession(panel, cfg.uid, cfg.sid); sesh != nil && res.err == nil {
		sk := sesh.GetSessionKey()
		out += " skey=" + vfC06Hex(sk[:]) + " sun=" + vfC06B(sesh.Unordered)
	} else {
		out += " skey=- sun=-"
	}
	srv.redir.mu.Lock()
	out += fmt.Sprintf(" redir=%d", srv.redir.dials)
	srv.redir.mu.Unlock()

	// AuthFirstPacket on the tapped first packet with a fresh State sharing key and clock
	fresh := vfC06NewServer(k, cfg.uid, cfg.method, serverNow, seed, vfC06NewPanel())
	ci, _, aerr := AuthFirstPacket(fp, tr, fresh.sta)
	if aerr == nil {
		out += " S=" + vfC06ShowCI(ci)
	} else {
		out += " S=R:" + vfC06ErrClass(aerr)
	}
	// the plaintext the client sealed, the shared secret as both sides compute it
	frag, _, perr := tr.processFirstPacket(fp, srv.sta.StaticPv)
	pt := []byte{}
	if perr == nil {
		if p, derr := common.AESGCMDecrypt(frag.randPubKey[:12], frag.sharedSecret[:], frag.ciphertextWithTag[:]); derr == nil {
			pt = p
		}
	}
	ssServer, e1 := curve25519.X25519(k.spv[:], cl.ePub)
	ssClient, e2 := curve25519.X25519(cl.ephPv, k.spub[:])
	dhc := e1 == nil && e2 == nil && string(ssServer) == string(ssClient)
	if e1 != nil {
		ssServer = nil
	}
	if cdn {
		fp = []byte(vfC06HiddenOf(rd))
	}
	out += fmt.Sprintf(" fp=%s reply=%s ephpv=%s epub=%s spv=%s spub=%s ss=%s pt=%s dhc=%s seenpub=%s snow=%d ts=%d",
		vfC06Hex(fp), vfC06Hex(reply), vfC06Hex(cl.ephPv), vfC06Hex(cl.ePub), vfC06Hex(k.spv[:]), vfC06Hex(k.spub[:]),
		vfC06Hex(ssServer), vfC06Hex(pt), vfC06B(dhc), vfC06B(perr == nil && string(frag.randPubKey[:]) == string(cl.ePub)),
		snow, uint64(cfg.clientNow.UTC().Unix()))
	if res.err != nil {
		out += " cerr=" + strconv.Quote(res.err.Error())
	}
	// tear down
	link.clientEnd.Close()
	vfC06CloseSession(panel, cfg.uid, cfg.sid)
	return out
}

// A first packet the CLIENT CODE never produces: shaped like the real one of this configuration, but with an ephemeral
// value chosen by the sender (a small-order X25519 input, hex in f[2]) and a block sealed under a key of the sender's
// choosing (hex in f[3]) - the server's public key is not used.  What does the real server-side parser + decryptor
// say, what does the model's server_process say?
//   <id> FP <direct|cdn> <chrome|firefox|safari> <u hex> <key hex> <seed>
func vfC06Forged(id string, f []string) string {
	u, key, seed := vfC06Unhex(f[2]), vfC06Unhex(f[3]), f[4]
	serverNow := time.Unix(1700000000, 0)
	cfg := vfC06Cfg{transport: f[0], browser: f[1], encName: "aes-gcm", sid: 7, serverName: "www.example.com",
		uid: []byte("0123456789abcdef"), method: "shadowsocks", clientNow: serverNow, seed: seed}
	k := vfC06MakeKeys(seed)
	srv := vfC06NewServer(k, cfg.uid, cfg.method, serverNow, seed, vfC06NewPanel())
	cl, err := vfC06NewClient(k, cfg)
	if err != nil || len(u) != 32 || len(key) != 32 {
		return fmt.Sprintf("%s cfgerr=%q", id, fmt.Sprint(err))
	}
	cdn := cfg.transport == "cdn"
	link := vfC06Connect(srv, cdn)
	resCh := make(chan error, 1)
	go func() {
		_, err := cl.tr.Handshake(link.clientEnd, cl.auth)
		resCh <- err
	}()
	select {
	case <-resCh:
	case <-time.After(30 * time.Second):
	}
	rd, _, _ := link.tap.snapshot()
	link.clientEnd.Close()
	vfC06CloseSession(srv.sta.Panel, cfg.uid, cfg.sid)
	var tr Transport = TLS{}
	trName := "tls"
	if cdn {
		tr, trName = WebSocket{}, "ws"
	}
	frag, _, perr := tr.processFirstPacket(append([]byte{}, rd...), srv.sta.StaticPv)
	if perr != nil {
		return fmt.Sprintf("%s cfgerr=%q", id, "template first packet does not parse: "+perr.Error())
	}
	// the 48-byte plaintext as the property documents it, sealed with the standard library
	pt := make([]byte, 48)
	copy(pt, cfg.uid)
	copy(pt[16:28], cfg.method)
	pt[28] = 1
	binary.BigEndian.PutUint64(pt[29:37], uint64(serverNow.Unix()))
	binary.BigEndian.PutUint32(pt[37:41], cfg.sid)
	blk, _ := aes.NewCipher(key)
	aead, _ := cipher.NewGCM(blk)
	block := aead.Seal(nil, u[:12], pt, nil)
	forged := append([]byte{}, rd...)
	var fp []byte
	if !cdn {
		ks := bytes.Index(forged, frag.ciphertextWithTag[32:64])
		if ks < 0 || forged[43] != 32 {
			return fmt.Sprintf("%s cfgerr=%q", id, "template layout")
		}
		copy(forged[11:43], u)
		copy(forged[44:76], block[:32])
		copy(forged[ks:ks+32], block[32:])
		fp = forged
	} else {
		old := vfC06HiddenOf(rd)
		nw := base64.StdEncoding.EncodeToString(append(append([]byte{}, u...), block...))
		forged = bytes.Replace(forged, []byte(old), []byte(nw), 1)
		fp = []byte(nw)
	}
	fresh := vfC06NewServer(k, cfg.uid, cfg.method, serverNow, seed, vfC06NewPanel())
	ci, _, aerr := AuthFirstPacket(forged, tr, fresh.sta)
	out := fmt.Sprintf("%s tr=%s", id, trName)
	if aerr == nil {
		out += " S=" + vfC06ShowCI(ci)
	} else {
		out += " S=R:" + vfC06ErrClass(aerr)
	}
	_, xerr := curve25519.X25519(k.spv[:], u)
	return out + fmt.Sprintf(" fp=%s spv=%s snow=%d x25519err=%s", vfC06Hex(fp), vfC06Hex(k.spv[:]), serverNow.UnixNano(), vfC06B(xerr != nil))
}

// Several connections of one session: k connections presenting the same (UID, session id A) - what a client with
// NumConn = k, or one that reconnects, does - plus one connection with another session id B, through the real client
// transport and the real dispatchConnection on ONE server State.  In sequence (each handshake finished before the
// next starts) or overlapped (all started together).  Every connection has its own client object (own ephemeral key).
//   <id> MS <direct|cdn> <chrome|firefox|safari> <encName> <k> <seq|par> <seed>
// -> <id> tr=.. n=<k+1> sid0=.. ok0=.. ckey0=.. ... skeyA=<key of the server's session A> skeyB=.. order=<completion order>
func vfC06Multi(id string, f []string) string {
	k, _ := strconv.Atoi(f[3])
	mode, seed := f[4], f[5]
	now := time.Unix(1700000000, 0)
	uid := []byte("multi-conn-uid-0")
	keys := vfC06MakeKeys(seed)
	panel := vfC06NewPanel()
	srv := vfC06NewServer(keys, uid, "shadowsocks", now, seed, panel)
	cdn := f[0] == "cdn"
	const sidA, sidB = 0xA0A0, 0xB0B0
	type one struct {
		sid  uint32
		key  [32]byte
		err  error
		link *vfC06Link
	}
	conns := make([]*one, k+1)
	for i := range conns {
		conns[i] = &one{sid: sidA}
	}
	conns[k].sid = sidB         // ... except the last one
	if k >= 2 {                  // the B connection sits in the middle of the A connections when there are several
		conns[k], conns[1] = conns[1], conns[k]
	}
	var mu sync.Mutex
	order := ""
	run := func(i int) {
		c := conns[i]
		cfg := vfC06Cfg{transport: f[0], browser: f[1], encName: f[2], sid: c.sid, serverName: "www.example.com",
			uid: uid, method: "shadowsocks", clientNow: now, seed: fmt.Sprintf("%s/conn%d", seed, i)}
		cl, err := vfC06NewClient(keys, cfg)
		if err != nil {
			c.err = err
			return
		}
		c.link = vfC06Connect(srv, cdn)
		done := make(chan struct{})
		go func() {
			c.key, c.err = cl.tr.Handshake(c.link.clientEnd, cl.auth)
			close(done)
		}()
		select {
		case <-done:
		case <-time.After(60 * time.Second):
			c.link.clientEnd.Close()
			<-done
		}
		mu.Lock()
		order += strconv.Itoa(i)
		mu.Unlock()
	}
	if mode == "par" {
		var wg sync.WaitGroup
		for i := range conns {
			wg.Add(1)
			go func(i int) { defer wg.Done(); run(i) }(i)
		}
		wg.Wait()
	} else {
		for i := range conns {
			run(i)
		}
	}
	trName := "tls"
	if cdn {
		trName = "ws"
	}
	out := fmt.Sprintf("%s tr=%s n=%d mode=%s", id, trName, len(conns), mode)
	for i, c := range conns {
		ck := "-"
		if c.err == nil {
			ck = vfC06Hex(c.key[:])
		}
		out += fmt.Sprintf(" sid%d=%x ok%d=%s ckey%d=%s", i, c.sid, i, vfC06B(c.err == nil), i, ck)
	}
	for name, sid := range map[string]uint32{"A": sidA, "B": sidB} {
		if sesh := vfC06FindSession(panel, uid, sid); sesh != nil {
			sk := sesh.GetSessionKey()
			out += " skey" + name + "=" + vfC06Hex(sk[:])
		} else {
			out += " skey" + name + "=-"
		}
	}
	srv.redir.mu.Lock()
	out += fmt.Sprintf(" redir=%d order=%s", srv.redir.dials, order)
	srv.redir.mu.Unlock()
	for _, c := range conns {
		if c.link != nil {
			c.link.clientEnd.Close()
		}
	}
	vfC06CloseSession(panel, uid, sidA)
	vfC06CloseSession(panel, uid, sidB)
	return out
}

// The admin session (UID = AdminUID, session id 0): the server keeps its session object to itself (it is not in the user
// panel), so agreement on the key is shown functionally: the client builds its multiplexer session from the key the
// handshake returned, opens a stream and sends one HTTP request to the user-management API the server serves on that
// session; an HTTP status line coming back means both ends hold the same key (frame headers are sealed with it under
// every encryption method).
//   <id> AS <direct|cdn> <chrome|firefox|safari> <encName> <seed>  ->  <id> tr=.. ok=<handshake> api=<first bytes of the answer hex | - >
func vfC06Admin(id string, f []string) string {
	seed := f[3]
	now := time.Unix(1700000000, 0)
	uid := []byte("the-admin-uid-00")
	keys := vfC06MakeKeys(seed)
	srv := vfC06NewServer(keys, []byte("some-bypass-uid0"), "shadowsocks", now, seed, vfC06NewPanel())
	srv.sta.AdminUID = uid
	cfg := vfC06Cfg{transport: f[0], browser: f[1], encName: f[2], sid: 0, serverName: "www.example.com",
		uid: uid, method: "shadowsocks", clientNow: now, seed: seed}
	cl, err := vfC06NewClient(keys, cfg)
	if err != nil {
		return fmt.Sprintf("%s cfgerr=%q", id, err.Error())
	}
	cdn := f[0] == "cdn"
	link := vfC06Connect(srv, cdn)
	defer link.clientEnd.Close()
	type hres struct {
		key [32]byte
		err error
	}
	hc := make(chan hres, 1)
	go func() {
		k, e := cl.tr.Handshake(link.clientEnd, cl.auth)
		hc <- hres{k, e}
	}()
	var h hres
	select {
	case h = <-hc:
	case <-time.After(60 * time.Second):
		return fmt.Sprintf("%s tr=%s ok=0 api=- note=handshake-timeout", id, f[0])
	}
	if h.err != nil {
		return fmt.Sprintf("%s tr=%s ok=0 api=- cerr=%q", id, f[0], h.err.Error())
	}
	obf, err := mux.MakeObfuscator(cl.auth.EncryptionMethod, h.key)
	if err != nil {
		return fmt.Sprintf("%s cfgerr=%q", id, err.Error())
	}
	sesh := mux.MakeSession(0, mux.SessionConfig{Obfuscator: obf, Unordered: cl.auth.Unordered, MsgOnWireSizeLimit: appDataMaxLength})
	sesh.AddConnection(cl.tr)
	defer sesh.Close()
	api := "-"
	st, err := sesh.OpenStream()
	if err == nil {
		st.Write([]byte("GET /admin/users HTTP/1.1\r\nHost: cloak\r\n\r\n"))
		buf := make([]byte, 64)
		st.SetReadDeadline(time.Now().Add(8 * time.Second))
		n, _ := st.Read(buf)
		if n > 0 {
			api = vfC06Hex(buf[:n])
		}
	}
	return fmt.Sprintf("%s tr=%s ok=1 ckey=%s api=%s", id, f[0], vfC06Hex(h.key[:]), api)
}

func vfC06Decrypt(id string, f []string) string {
	pt := vfC06Unhex(f[0])
	sec, _ := strconv.ParseInt(f[1], 10, 64)
	nsec, _ := strconv.ParseInt(f[2], 10, 64)
	if len(pt) != 48 {
		return id + " S=badcase"
	}
	rnd := vfC06NewRand("D:" + id)
	var frag authFragments
	rnd.Read(frag.sharedSecret[:])
	rnd.Read(frag.randPubKey[:])
	ct, err := common.AESGCMEncrypt(frag.randPubKey[:12], frag.sharedSecret[:], pt)
	if err != nil || len(ct) != 64 {
		return id + " S=badcase"
	}
	copy(frag.ciphertextWithTag[:], ct)
	ci, derr := decryptClientInfo(frag, time.Unix(sec, nsec).UTC())
	if derr != nil {
		cls := "decrypt"
		if len(derr.Error()) >= len(ErrTimestampOutOfWindow.Error()) && derr.Error()[:len(ErrTimestampOutOfWindow.Error())] == ErrTimestampOutOfWindow.Error() {
			cls = "window"
		}
		return fmt.Sprintf("%s S=R:%s sid0=%s", id, cls, vfC06B(ci.SessionId == 0))
	}
	return id + " S=" + vfC06ShowCI(ci) + " sid0=-"
}

func TestVerifC06(t *testing.T) {
	sc, w, done := vfC06IO(t)
	defer done()
	for sc.Scan() {
		f := strings.Fields(sc.Text())
		if len(f) < 2 {
			continue
		}
		var line string
		func() {
			defer func() {
				if r := recover(); r != nil {
					line = fmt.Sprintf("%s panic=%q", f[0], fmt.Sprint(r))
				}
			}()
			switch f[1] {
			case "HS":
				if len(f) == 13 {
					line = vfC06Handshake(f[0], f[2:])
				}
			case "D":
				if len(f) == 5 {
					line = vfC06Decrypt(f[0], f[2:])
				}
			case "AS":
				if len(f) == 6 {
					line = vfC06Admin(f[0], f[2:])
				}
			case "MS":
				if len(f) == 8 {
					line = vfC06Multi(f[0], f[2:])
				}
			case "FP":
				if len(f) == 7 {
					line = vfC06Forged(f[0], f[2:])
				}
			}
		}()
		if line != "" {
			w.WriteString(line + "\n")
			w.Flush()
		}
	}
}
