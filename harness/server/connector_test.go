package server

// Connector driver: the real client.MakeSession (internal/client/connector.go) against the real dispatcher, through a
// dialer owned by the harness whose k-th Dial call (counted over all goroutines of the session) has a scripted outcome:
//   d  the dial fails
//   h  the dial succeeds, the handshake fails (the connection is shut right after the client's first flight)
//   o  a tapped connection served by the real dispatchConnection
//
// input : <id> K <browser chrome|firefox|safari> <numConn> <script of d/h/o, one letter per Dial call>
// output: <id> est=<0|1> dials=<n> hellos=<len|->,.. elapsed_ms=<n> echo=<ok|bad|-> nconn_server=<connections the server's session got>
//   hellos: length of the client's first flight on the k-th dialled connection ("-" for a failed dial)

import (
	"errors"
	"fmt"
	"net"
	"strconv"
	"strings"
	"sync"
	"testing"
	"time"

	"github.com/cbeuw/Cloak/internal/client"
	"github.com/cbeuw/Cloak/internal/common"
	mux "github.com/cbeuw/Cloak/internal/multiplex"
)

type cnDialer struct {
	mu     sync.Mutex
	srv    *vfC06Server
	script string
	k      int
	hellos []string
	taps   []*vfC06Tap
	links  []*vfC06Link
	dead   bool
}

// a connection that is shut as soon as the client has written its first flight
type cnBrokenConn struct {
	net.Conn
	d   *cnDialer
	idx int
	n   int
}

func (c *cnBrokenConn) Write(p []byte) (int, error) {
	n, err := c.Conn.Write(p)
	c.d.mu.Lock()
	if c.n == 0 {
		c.d.hellos[c.idx] = strconv.Itoa(len(p))
	}
	c.n++
	c.d.mu.Unlock()
	c.Conn.Close()
	return n, err
}

type cnSink struct{ net.Conn }

func (d *cnDialer) Dial(network, address string) (net.Conn, error) {
	d.mu.Lock()
	if d.dead || d.k >= len(d.script) {
		d.mu.Unlock()
		select {} // the script is over: park whatever still retries
	}
	idx := d.k
	o := d.script[idx]
	d.k++
	d.hellos = append(d.hellos, "-")
	d.mu.Unlock()
	switch o {
	case 'd':
		return nil, errors.New("connector driver: scripted dial failure")
	case 'h':
		a, b := vfC06Pipe()
		go func() { // swallow the hello
			buf := make([]byte, 4096)
			for {
				if _, err := b.Read(buf); err != nil {
					return
				}
			}
		}()
		return &cnBrokenConn{Conn: a, d: d, idx: idx}, nil
	}
	l := vfC06Connect(d.srv, false)
	ct := &vfC06Tap{Conn: l.clientEnd}
	d.mu.Lock()
	d.links = append(d.links, l)
	d.taps = append(d.taps, ct)
	tapIdx := len(d.taps) - 1
	d.mu.Unlock()
	_ = tapIdx
	return &cnOkConn{Conn: ct, d: d, idx: idx}, nil
}

type cnOkConn struct {
	net.Conn
	d   *cnDialer
	idx int
	n   int
}

func (c *cnOkConn) Write(p []byte) (int, error) {
	c.d.mu.Lock()
	if c.n == 0 {
		c.d.hellos[c.idx] = strconv.Itoa(len(p))
	}
	c.n++
	c.d.mu.Unlock()
	return c.Conn.Write(p)
}

func cnCase(id string, f []string) string {
	numConn, _ := strconv.Atoi(f[3])
	seed := "cn" + id
	uid := vfC10Payload("uid:"+seed, 16)
	method := "mcn"
	now := time.Unix(1700000000, 0)
	k := vfC06MakeKeys(seed)
	panel := vfC06NewPanel()
	srv := vfC06NewServer(k, uid, method, now, seed, panel)
	raw := client.RawConfig{
		ServerName: "www.example.org", ProxyMethod: method, EncryptionMethod: "plain", UID: uid, PublicKey: k.spub[:],
		NumConn: numConn, LocalHost: "127.0.0.1", LocalPort: "1984", RemoteHost: "10.0.0.1", RemotePort: "443",
		BrowserSig: f[2], Transport: "direct",
	}
	rnd := vfC06NewRand("client:" + seed)
	ws := common.WorldState{Rand: rnd, Now: func() time.Time { return now }}
	_, remote, auth, err := raw.ProcessRawConfig(ws)
	if err != nil {
		return fmt.Sprintf("%s cfgerr=%q", id, err.Error())
	}
	auth.SessionId = 0xC0
	d := &cnDialer{srv: srv, script: f[4]}
	var sesh *mux.Session
	made := make(chan struct{})
	t0 := time.Now()
	go func() {
		sesh = client.MakeSession(remote, auth, d)
		close(made)
	}()
	est := false
	fails := strings.Count(f[4], "d") + strings.Count(f[4], "h")
	select {
	case <-made:
		est = true
	case <-time.After(time.Duration(3*fails+20) * time.Second):
	}
	elapsed := time.Since(t0)
	echo := "-"
	if est {
		echo = "bad"
		if s, err := sesh.OpenStream(); err == nil {
			if vfC10Echo(s, vfC10Payload(seed+"/e", 300), false) {
				echo = "ok"
			}
			s.Close()
		}
	}
	nserver := 0
	if ss := vfC06FindSession(panel, uid, 0xC0); ss != nil {
		// connections the dispatcher attached: the links whose handshake was answered
		d.mu.Lock()
		for _, l := range d.links {
			_, wr, _ := l.tap.snapshot()
			if len(wr) > 0 {
				nserver++
			}
		}
		d.mu.Unlock()
	}
	d.mu.Lock()
	d.dead = true
	hellos := strings.Join(d.hellos, ",")
	dials := d.k
	d.mu.Unlock()
	if sesh != nil {
		sesh.Close()
	}
	vfC06CloseSession(panel, uid, 0xC0)
	if hellos == "" {
		hellos = "-"
	}
	return fmt.Sprintf("%s est=%s dials=%d hellos=%s elapsed_ms=%d echo=%s nconn_server=%d", id, vfC06B(est), dials, hellos, elapsed.Milliseconds(), echo, nserver)
}

func TestVerifConnector(t *testing.T) {
	sc, w, done := vfC06IO(t)
	defer done()
	var lines [][]string
	for sc.Scan() {
		f := strings.Fields(sc.Text())
		if len(f) == 5 && f[1] == "K" {
			lines = append(lines, f)
		}
	}
	// every failed attempt costs a real 3 s pause: the cases run side by side
	res := make([]string, len(lines))
	var wg sync.WaitGroup
	for i, f := range lines {
		wg.Add(1)
		go func(i int, f []string) {
			defer wg.Done()
			res[i] = cnCase(f[0], f)
		}(i, f)
	}
	wg.Wait()
	for _, r := range res {
		fmt.Fprintln(w, r)
	}
}
