package server

// C15 driver: batches of SIMULTANEOUS real handshakes (client.DirectTLS.Handshake over in-memory
// pipes) against the real dispatchConnection, real userPanel, real localManager on a bolt file,
// admin changes through the real API router.  Run with -race.
//
// input (VERIF_IN):  <id> <now> <users> <phase> ...          users as in the C17 driver
//   phase = H<uid>.<sid>x<n>[,<uid>.<sid>x<n>...]   n simultaneous connections per (uid, sid) pair
//         | W<uid>.<sid>                            one more connection of the pair whose reply write FAILS at the server
//         | E<uid>.<sid>                            the session ends (Session.Close -> serveSession -> CloseSession)
//         | Aw... | Ad<uid> | K<secs>               as in the C17 driver
// output (VERIF_OUT): <id> then one observation per phase:
//   H: [<uid>.<sid>:a<answered>:k<key ids joined by '+'>:r<refused>:w<redirected>;...|<table>]
//   others: [|<table>]         table = <uid>=<NumSession or ->,...
// key ids number the distinct session keys of the scenario in order of first appearance per pair
// listing (deterministic: pairs are processed in the order given).

import (
	"fmt"
	"io"
	"net"
	"os"
	"sort"
	"strconv"
	"strings"
	"sync"
	"sync/atomic"
	"testing"
	"time"

	crand "crypto/rand"

	"github.com/cbeuw/Cloak/internal/client"
	"github.com/cbeuw/Cloak/internal/common"
	"github.com/cbeuw/Cloak/internal/ecdh"
	log "github.com/sirupsen/logrus"
)

type vfC15Dialer struct{ n int64 }

func (d *vfC15Dialer) Dial(network, address string) (net.Conn, error) {
	atomic.AddInt64(&d.n, 1)
	a, b := net.Pipe()
	go io.Copy(io.Discard, b)
	return a, nil
}

type vfC15Res struct {
	pair     string
	key      [32]byte
	answered bool
	redir    bool
	cEnd     net.Conn
}

type vfC15Rig struct {
	*vfC17Rig
	sta   *State
	pub   interface{}
	redir *vfC15Dialer
	keys  map[[32]byte]int
	conns []net.Conn
}

func vfC15NewRig(dir, id string, now int64, users string) (*vfC15Rig, error) {
	r, err := vfC17NewRig(dir, id, now, users)
	if err != nil {
		return nil, err
	}
	pv, pub, _ := ecdh.GenerateKey(crand.Reader)
	rd := &vfC15Dialer{}
	bypass := map[[16]byte]struct{}{}
	for u := range r.bypass {
		var a [16]byte
		copy(a[:], vfC17UID(u))
		bypass[a] = struct{}{}
	}
	sta := &State{
		ProxyBook:   map[string]net.Addr{"vfc15": &net.TCPAddr{IP: net.ParseIP("127.0.0.1"), Port: 9}},
		ProxyDialer: &vfC15Dialer{},
		RedirDialer: rd,
		BypassUID:   bypass,
		UsedRandom:  map[[32]byte]int64{},
		WorldState:  common.WorldState{Rand: crand.Reader, Now: func() time.Time { return time.Unix(atomic.LoadInt64(r.nowSec), 0) }},
		StaticPv:    pv,
		RedirHost:   &net.IPAddr{IP: net.ParseIP("127.0.0.1")},
		RedirPort:   "80",
		Panel:       r.panel,
	}
	return &vfC15Rig{vfC17Rig: r, sta: sta, pub: pub, redir: rd, keys: map[[32]byte]int{}}, nil
}

// one connection: returns when the client has its key, or the server side has given up on it
// a server-side connection whose Write fails: the dispatcher cannot send its reply on it
type vfC15NoWrite struct{ net.Conn }

func (c vfC15NoWrite) Write(p []byte) (int, error) { return 0, io.ErrClosedPipe }

func (r *vfC15Rig) connect(uid int, sid uint32, start chan struct{}, out chan vfC15Res) {
	r.connectX(uid, sid, start, out, false)
}

func (r *vfC15Rig) connectX(uid int, sid uint32, start chan struct{}, out chan vfC15Res, failWrite bool) {
	cEnd, sEndRaw := net.Pipe()
	var sEnd net.Conn = sEndRaw
	if failWrite {
		sEnd = vfC15NoWrite{sEndRaw}
	}
	srvDone := make(chan struct{})
	cliDone := make(chan vfC15Res, 1)
	pair := fmt.Sprintf("%d.%d", uid, sid)
	go func() {
		<-start
		dispatchConnection(sEnd, r.sta)
		if failWrite {
			sEndRaw.Close()
		}
		close(srvDone)
	}()
	go func() {
		<-start
		var tls client.DirectTLS
		ai := client.AuthInfo{UID: vfC17UID(uid), SessionId: sid, ProxyMethod: "vfc15", EncryptionMethod: 1,
			ServerPubKey: r.pub, MockDomain: "www.example.com", WorldState: r.sta.WorldState}
		key, err := tls.Handshake(cEnd, ai)
		cliDone <- vfC15Res{pair: pair, key: key, answered: err == nil, cEnd: cEnd}
		if err == nil {
			io.Copy(io.Discard, cEnd)
		}
	}()
	go func() {
		select {
		case x := <-cliDone:
			out <- x
		case <-srvDone:
			// the dispatcher returned: either it answered (joined an existing session) and the client
			// is about to finish, or it refused / redirected
			select {
			case x := <-cliDone:
				out <- x
			case <-time.After(120 * time.Millisecond):
				cEnd.Close()
				out <- vfC15Res{pair: pair, cEnd: cEnd}
			}
		case <-time.After(20 * time.Second):
			cEnd.Close()
			out <- vfC15Res{pair: pair, cEnd: cEnd}
		}
	}()
}

func (r *vfC15Rig) table() string {
	var b strings.Builder
	for i, u := range r.uids {
		if i > 0 {
			b.WriteByte(',')
		}
		var arr [16]byte
		copy(arr[:], vfC17UID(u))
		r.panel.activeUsersM.RLock()
		user := r.panel.activeUsers[arr]
		r.panel.activeUsersM.RUnlock()
		if user == nil {
			fmt.Fprintf(&b, "%d=-", u)
		} else {
			fmt.Fprintf(&b, "%d=%d", u, user.NumSession())
		}
	}
	return b.String()
}

// wait until the panel is quiet: NumSession / isActive stable over a few polls
func (r *vfC15Rig) quiet() {
	last := ""
	same := 0
	for i := 0; i < 4000 && same < 5; i++ {
		time.Sleep(200 * time.Microsecond)
		t := r.table()
		if t == last {
			same++
		} else {
			same = 0
			last = t
		}
	}
}

func (r *vfC15Rig) phase(ph string) string {
	switch ph[0] {
	case 'H':
		type pr struct {
			uid int
			sid uint32
			n   int
		}
		var pairs []pr
		total := 0
		for _, e := range strings.Split(ph[1:], ",") {
			x := strings.Split(e, "x")
			us := strings.Split(x[0], ".")
			u, _ := strconv.Atoi(us[0])
			s, _ := strconv.Atoi(us[1])
			n, _ := strconv.Atoi(x[1])
			pairs = append(pairs, pr{u, uint32(s), n})
			total += n
			r.noteUID(u)
		}
		start := make(chan struct{})
		out := make(chan vfC15Res, total)
		redirBefore := atomic.LoadInt64(&r.redir.n)
		for _, p := range pairs {
			for i := 0; i < p.n; i++ {
				r.connect(p.uid, p.sid, start, out)
			}
		}
		close(start)
		by := map[string][]vfC15Res{}
		for i := 0; i < total; i++ {
			x := <-out
			by[x.pair] = append(by[x.pair], x)
			r.conns = append(r.conns, x.cEnd)
		}
		r.quiet()
		redirs := atomic.LoadInt64(&r.redir.n) - redirBefore
		var parts []string
		for _, p := range pairs {
			name := fmt.Sprintf("%d.%d", p.uid, p.sid)
			ans := 0
			var ids []int
			seen := map[int]bool{}
			for _, x := range by[name] {
				if x.answered {
					ans++
					id, ok := r.keys[x.key]
					if !ok {
						id = len(r.keys)
						r.keys[x.key] = id
					}
					if !seen[id] {
						seen[id] = true
						ids = append(ids, id)
					}
				}
			}
			sort.Ints(ids)
			var ks []string
			for _, id := range ids {
				ks = append(ks, strconv.Itoa(id))
			}
			parts = append(parts, fmt.Sprintf("%s:a%d:k%s:n%d", name, ans, strings.Join(ks, "+"), p.n-ans))
		}
		return fmt.Sprintf("[%s;w%d|%s]", strings.Join(parts, ";"), redirs, r.table())
	case 'W':
		// ONE more connection of the pair whose reply cannot be written (a fault on that connection alone):
		// it is not answered; the session its siblings are in is none of its business
		us := strings.Split(ph[1:], ".")
		u, _ := strconv.Atoi(us[0])
		sd, _ := strconv.Atoi(us[1])
		start := make(chan struct{})
		out := make(chan vfC15Res, 1)
		r.connectX(u, uint32(sd), start, out, true)
		close(start)
		x := <-out
		r.conns = append(r.conns, x.cEnd)
		r.quiet()
		return "[|" + r.table() + "]"
	case 'E':
		us := strings.Split(ph[1:], ".")
		u, _ := strconv.Atoi(us[0])
		s, _ := strconv.Atoi(us[1])
		var arr [16]byte
		copy(arr[:], vfC17UID(u))
		r.panel.activeUsersM.RLock()
		user := r.panel.activeUsers[arr]
		r.panel.activeUsersM.RUnlock()
		if user != nil {
			user.sessionsM.RLock()
			sesh := user.sessions[uint32(s)]
			user.sessionsM.RUnlock()
			if sesh != nil {
				// as every closing path of the real code does: message first, then Close
				// (Session.TerminalMsg is read unsynchronised by serveSession)
				sesh.SetTerminalMsg("session ends")
				sesh.Close()
			}
		}
		r.quiet()
		return "[|" + r.table() + "]"
	default:
		r.vfC17Rig.step(ph)
		return "[|" + r.table() + "]"
	}
}

func (r *vfC15Rig) shutdown() {
	defer func() {
		for _, c := range r.conns {
			c.Close()
		}
	}()
	r.panel.activeUsersM.RLock()
	var users []*ActiveUser
	for _, u := range r.panel.activeUsers {
		users = append(users, u)
	}
	r.panel.activeUsersM.RUnlock()
	for _, u := range users {
		u.closeAllSessions("")
	}
	r.quiet()
	r.closer()
}

var vfC15Mu sync.Mutex

func TestVerifC15(t *testing.T) {
	in := os.Getenv("VERIF_IN")
	out := os.Getenv("VERIF_OUT")
	if in == "" || out == "" {
		t.Skip("VERIF_IN / VERIF_OUT not set")
	}
	log.SetOutput(io.Discard)
	data, err := os.ReadFile(in)
	if err != nil {
		t.Fatal(err)
	}
	fo, err := os.Create(out)
	if err != nil {
		t.Fatal(err)
	}
	defer fo.Close()
	dir, err := os.MkdirTemp("", "vfc15")
	if err != nil {
		t.Fatal(err)
	}
	defer os.RemoveAll(dir)
	fmt.Fprintf(fo, "#cfg patched=%s\n", vfC17B(vfC17Patched()))
	for _, ln := range strings.Split(string(data), "\n") {
		f := strings.Fields(ln)
		if len(f) < 4 {
			continue
		}
		var now int64
		fmt.Sscan(f[1], &now)
		r, err := vfC15NewRig(dir, f[0], now, f[2])
		if err != nil {
			fmt.Fprintf(fo, "%s ERROR %v\n", f[0], err)
			continue
		}
		var obs []string
		for _, ph := range f[3:] {
			obs = append(obs, r.phase(ph))
		}
		fmt.Fprintf(fo, "%s %s\n", f[0], strings.Join(obs, " "))
		r.shutdown()
	}
	fo.Sync()
}
