package server

import (
	"fmt"
	"os"
	"testing"
)

func TestVerifConsts(t *testing.T) {
	out := os.Getenv("VERIF_OUT")
	if out == "" {
		t.Skip()
	}
	f, _ := os.Create(out)
	defer f.Close()
	p := func(n string, v interface{}) { fmt.Fprintf(f, "%s %d\n", n, v) }
	p("server_firstPacketSize", firstPacketSize)
	p("server_timestampTolerance_ns", int64(timestampTolerance))
	p("server_replayCacheAgeLimit_ns", int64(replayCacheAgeLimit))
	p("server_appDataMaxLength", appDataMaxLength)
	p("server_UNORDERED_FLAG", UNORDERED_FLAG)
	p("server_defaultUploadInterval_ns", int64(defaultUploadInterval))
}
