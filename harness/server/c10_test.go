package server

// C10 driver: a passive tap on every connection between the real client (client.MakeSession: real
// Handshake, real mux Session) and the real server (dispatchConnection, serveSession, proxy = echo).
// Every byte of every connection, both directions, is written out for the independent grammar.
//
// input lines:
//   <id> RUN <chrome|firefox|safari> <encName> <unordered 0|1> <serverName hex> <numConn> <pattern> <seed>
//     pattern: small | multi | sclose | seshclose | srvclose | idle
// output lines:
//   <id> ok=<0|1> done=<pattern completed> nconn=<n> name=<configured name hex>
//        c2s0=<hex> s2c0=<hex> w0=<lengths of the server's raw writes, comma separated> cw0=<same for the client> ...

import (
	"bytes"
	"crypto/sha256"
	"fmt"
	"io"
	"net"
	"strconv"
	"strings"
	"sync"
	"testing"
	"time"

	"github.com/cbeuw/Cloak/internal/client"
	"github.com/cbeuw/Cloak/internal/common"
	mux "github.com/cbeuw/Cloak/internal/multiplex"
)

// dialer handed to client.MakeSession: each Dial is one tapped connection served by dispatchConnection
type vfC10Dialer struct {
	mu    sync.Mutex
	srv   *vfC06Server
	links []*vfC06Link
	ctaps []*vfC06Tap
	dead  bool
}

func (d *vfC10Dialer) Dial(network, address string) (net.Conn, error) {
	d.mu.Lock()
	dead := d.dead
	d.mu.Unlock()
	if dead {
		// the case is over (client.MakeSession retries for ever after a failed handshake): park the retry loop
		select {}
	}
	l := vfC06Connect(d.srv, false)
	ct := &vfC06Tap{Conn: l.clientEnd}
	d.mu.Lock()
	d.links = append(d.links, l)
	d.ctaps = append(d.ctaps, ct)
	d.mu.Unlock()
	return ct, nil
}

func vfC10Payload(seed string, n int) []byte {
	out := make([]byte, 0, n+32)
	ctr := 0
	for len(out) < n {
		h := sha256.Sum256([]byte(fmt.Sprintf("%s/%d", seed, ctr)))
		out = append(out, h[:]...)
		ctr++
	}
	return out[:n]
}

// write msg on the stream and read the echo back (the proxy behind the server is an echo)
func vfC10Echo(s net.Conn, msg []byte, unordered bool) bool {
	done := make(chan bool, 1)
	go func() {
		got := make([]byte, 0, len(msg))
		buf := make([]byte, 65536)
		for len(got) < len(msg) {
			s.SetReadDeadline(time.Now().Add(10 * time.Second))
			n, err := s.Read(buf)
			got = append(got, buf[:n]...)
			if err != nil {
				done <- false
				return
			}
		}
		done <- bytes.Equal(got, msg)
	}()
	if _, err := s.Write(msg); err != nil {
		return false
	}
	select {
	case ok := <-done:
		return ok
	case <-time.After(15 * time.Second):
		return false
	}
}

func vfC10Lens(ws [][]byte) string {
	if len(ws) == 0 {
		return "-"
	}
	parts := make([]string, len(ws))
	for i, w := range ws {
		parts[i] = strconv.Itoa(len(w))
	}
	return strings.Join(parts, ",")
}

func vfC10Run(id string, f []string) string {
	// f: browser enc unordered serverName numConn pattern seed
	unordered := f[2] == "1"
	name := string(vfC06Unhex(f[3]))
	numConn, _ := strconv.Atoi(f[4])
	pattern := f[5]
	seed := f[6]
	uid := vfC10Payload("uid:"+seed, 16)
	method := "m" + seed
	if len(method) > 12 {
		method = method[:12]
	}
	now := time.Unix(1700000000, 0)
	k := vfC06MakeKeys(seed)
	panel := vfC06NewPanel()
	srv := vfC06NewServer(k, uid, method, now, seed, panel)
	raw := client.RawConfig{
		ServerName: name, ProxyMethod: method, EncryptionMethod: f[1], UID: uid, PublicKey: k.spub[:],
		NumConn: numConn, LocalHost: "127.0.0.1", LocalPort: "1984", RemoteHost: "10.0.0.1", RemotePort: "443",
		UDP: unordered, BrowserSig: f[0], Transport: "direct",
	}
	rnd := vfC06NewRand("client:" + seed)
	ws := common.WorldState{Rand: rnd, Now: func() time.Time { return now }}
	_, remote, auth, err := raw.ProcessRawConfig(ws)
	if err != nil {
		return fmt.Sprintf("%s cfgerr=%q", id, err.Error())
	}
	auth.SessionId = 0xC10
	d := &vfC10Dialer{srv: srv}
	var sesh *mux.Session
	made := make(chan struct{})
	go func() {
		sesh = client.MakeSession(remote, auth, d)
		close(made)
	}()
	established := true
	select {
	case <-made:
	case <-srv.redir.ch:
		// the server did not take the real client's first packet for Cloak
		established = false
	case <-time.After(20 * time.Second):
		established = false
	}
	if !established {
		d.mu.Lock()
		d.dead = true
		d.mu.Unlock()
		time.Sleep(20 * time.Millisecond)
		pattern = "none"
	}
	ok := established
	switch pattern {
	case "small":
		s, err := sesh.OpenStream()
		if err != nil {
			ok = false
			break
		}
		for i := 0; i < 12 && ok; i++ {
			ok = vfC10Echo(s, vfC10Payload(seed+"/s"+strconv.Itoa(i), 1+i*37%300), unordered)
		}
		s.Close()
	case "multi":
		s, err := sesh.OpenStream()
		if err != nil {
			ok = false
			break
		}
		sizes := []int{16132, 16133, 40000, 1, 70000}
		if unordered {
			sizes = []int{16132, 9000, 1}
		}
		for i, n := range sizes {
			if !ok {
				break
			}
			ok = vfC10Echo(s, vfC10Payload(seed+"/m"+strconv.Itoa(i), n), unordered)
		}
		s.Close()
	case "sclose":
		for i := 0; i < 4 && ok; i++ {
			s, err := sesh.OpenStream()
			if err != nil {
				ok = false
				break
			}
			ok = vfC10Echo(s, vfC10Payload(seed+"/c"+strconv.Itoa(i), 100+i), unordered)
			s.Close()
		}
	case "seshclose":
		s, err := sesh.OpenStream()
		if err != nil {
			ok = false
			break
		}
		ok = vfC10Echo(s, vfC10Payload(seed+"/x", 777), unordered)
		sesh.Close()
	case "srvclose":
		s, err := sesh.OpenStream()
		if err != nil {
			ok = false
			break
		}
		ok = vfC10Echo(s, vfC10Payload(seed+"/y", 555), unordered)
		// the server closes the session: its closing notice travels server -> client
		vfC06CloseSession(panel, uid, 0xC10)
		buf := make([]byte, 16)
		s.SetReadDeadline(time.Now().Add(5 * time.Second))
		_, rerr := s.Read(buf)
		ok = ok && rerr != nil
	case "idle":
	}
	// let closing notices reach the wire, then close everything
	time.Sleep(30 * time.Millisecond)
	if sesh != nil {
		sesh.Close()
	}
	time.Sleep(30 * time.Millisecond)
	vfC06CloseSession(panel, uid, 0xC10)
	time.Sleep(10 * time.Millisecond)

	d.mu.Lock()
	links := append([]*vfC06Link{}, d.links...)
	ctaps := append([]*vfC06Tap{}, d.ctaps...)
	d.mu.Unlock()
	out := fmt.Sprintf("%s ok=1 done=%s est=%s nconn=%d name=%s", id, vfC06B(ok), vfC06B(established), len(links), vfC06Hex([]byte(name)))
	for i, l := range links {
		_, wr, writes := l.tap.snapshot()
		_, cwr, cwrites := ctaps[i].snapshot()
		out += fmt.Sprintf(" c2s%d=%s s2c%d=%s w%d=%s cw%d=%s", i, vfC06Hex(cwr), i, vfC06Hex(wr), i, vfC10Lens(writes), i, vfC10Lens(cwrites))
	}
	return out
}

// ------------------------------------------------------------------------------------------
// connections the server does NOT take for Cloak: a real client whose credential the server rejects (proxy method it
// does not serve, unknown UID, payload sealed to another server key, stale clock).  The redirect target is a decoy
// that speaks TLS 1.3 framing of its own: it reads the ClientHello and answers with a ServerHello echoing the
// legacy session id, ChangeCipherSpec and application-data records (hand-composed here, not by composeReply).
// The wire image of such a connection must be that ONE TLS conversation: everything the server sends the client
// is what the decoy sent, byte for byte.
//
// input : <id> RDR <chrome|firefox|safari> <badmethod|baduid|wrongkey|late> <seed>
// output: <id> ok=1 rdr=1 dials=<n> c2s0=<hex> s2c0=<hex> din=<what the decoy received> dout=<what the decoy sent> herr=<client handshake failed 0|1>
type vfC10Decoy struct {
	mu    sync.Mutex
	seed  string
	dials int
	in    []byte
	out   []byte
}

func vfC10DecoyFlight(sid []byte, seed string) []byte {
	rec := func(typ byte, body []byte) []byte {
		return append([]byte{typ, 0x03, 0x03, byte(len(body) >> 8), byte(len(body))}, body...)
	}
	sh := []byte{0x02, 0x00, 0x00, 0x76, 0x03, 0x03}
	sh = append(sh, vfC10Payload("decoy-random:"+seed, 32)...)
	sh = append(sh, 0x20)
	sh = append(sh, sid...)
	sh = append(sh, 0x13, 0x02, 0x00, 0x00, 0x2e)
	sh = append(sh, 0x00, 0x33, 0x00, 0x24, 0x00, 0x1d, 0x00, 0x20)
	sh = append(sh, vfC10Payload("decoy-share:"+seed, 32)...)
	sh = append(sh, 0x00, 0x2b, 0x00, 0x02, 0x03, 0x04)
	out := rec(0x16, sh)
	out = append(out, rec(0x14, []byte{0x01})...)
	out = append(out, rec(0x17, vfC10Payload("decoy-ee:"+seed, 1369))...)
	out = append(out, rec(0x17, vfC10Payload("decoy-fin:"+seed, 69))...)
	return out
}

func (d *vfC10Decoy) Dial(network, address string) (net.Conn, error) {
	a, b := vfC06Pipe()
	d.mu.Lock()
	d.dials++
	d.mu.Unlock()
	go func() {
		hdr := make([]byte, 5)
		if _, err := io.ReadFull(b, hdr); err != nil {
			return
		}
		body := make([]byte, int(hdr[3])<<8|int(hdr[4]))
		if _, err := io.ReadFull(b, body); err != nil {
			return
		}
		d.mu.Lock()
		d.in = append(append(d.in, hdr...), body...)
		d.mu.Unlock()
		sid := make([]byte, 32)
		if len(body) > 39+32 && body[38] == 32 {
			copy(sid, body[39:39+32])
		}
		flight := vfC10DecoyFlight(sid, d.seed)
		d.mu.Lock()
		d.out = append(d.out, flight...)
		d.mu.Unlock()
		b.Write(flight)
		buf := make([]byte, 4096)
		for {
			n, err := b.Read(buf)
			d.mu.Lock()
			d.in = append(d.in, buf[:n]...)
			d.mu.Unlock()
			if err != nil {
				return
			}
		}
	}()
	return a, nil
}

func vfC10Redirect(id string, f []string) string {
	// f: browser reason seed
	reason, seed := f[1], f[2]
	uid := vfC10Payload("uid:"+seed, 16)
	method := "m" + seed
	if len(method) > 12 {
		method = method[:12]
	}
	now := time.Unix(1700000000, 0)
	k := vfC06MakeKeys(seed)
	panel := vfC06NewPanel()
	srv := vfC06NewServer(k, uid, method, now, seed, panel)
	decoy := &vfC10Decoy{seed: seed}
	srv.sta.RedirDialer = decoy
	cfg := vfC06Cfg{transport: "direct", browser: f[0], encName: "aes-gcm", sid: 0xC10, serverName: "www.example.com",
		uid: uid, method: method, clientNow: now, seed: seed}
	ck := k
	switch reason {
	case "badmethod":
		cfg.method = "nosuchmethod"
	case "baduid":
		cfg.uid = vfC10Payload("another-uid:"+seed, 16)
	case "wrongkey":
		ck = vfC06MakeKeys("another-server:" + seed)
	case "late":
		cfg.clientNow = now.Add(-1000 * time.Second)
	case "none":
	default:
		return fmt.Sprintf("%s cfgerr=%q", id, "unknown reason "+reason)
	}
	cl, err := vfC06NewClient(ck, cfg)
	if err != nil {
		return fmt.Sprintf("%s cfgerr=%q", id, err.Error())
	}
	link := vfC06Connect(srv, false)
	ct := &vfC06Tap{Conn: link.clientEnd}
	resCh := make(chan error, 1)
	go func() {
		_, err := cl.tr.Handshake(ct, cl.auth)
		resCh <- err
	}()
	var herr error
	select {
	case herr = <-resCh:
	case <-time.After(10 * time.Second):
		herr = fmt.Errorf("client handshake timed out")
	}
	// quiescence: nothing new on the tap for a few milliseconds (two writers may be racing for the connection)
	// and, when the connection was relayed, everything the decoy sent has come through (on a starved machine the relay
	// may need a long time: the bound is generous and only reached when bytes really never arrive)
	last, stable := -1, 0
	for i := 0; i < 40000; i++ {
		time.Sleep(500 * time.Microsecond)
		_, wr, _ := link.tap.snapshot()
		if len(wr) == last {
			stable++
		} else {
			stable, last = 0, len(wr)
		}
		decoy.mu.Lock()
		nd, no := decoy.dials, len(decoy.out)
		decoy.mu.Unlock()
		complete := nd == 0 || (no > 0 && len(wr) >= no)
		if stable >= 6 && (complete || i > 4000) {
			break
		}
	}
	_, wr, writes := link.tap.snapshot()
	_, cwr, cwrites := ct.snapshot()
	decoy.mu.Lock()
	din, dout, dials := append([]byte{}, decoy.in...), append([]byte{}, decoy.out...), decoy.dials
	decoy.mu.Unlock()
	ct.Close()
	vfC06CloseSession(panel, cfg.uid, 0xC10)
	return fmt.Sprintf("%s ok=1 rdr=1 done=1 est=1 nconn=1 dials=%d name=%s c2s0=%s s2c0=%s w0=%s cw0=%s din=%s dout=%s herr=%s", id, dials,
		vfC06Hex([]byte("www.example.com")), vfC06Hex(cwr), vfC06Hex(wr), vfC10Lens(writes), vfC10Lens(cwrites), vfC06Hex(din), vfC06Hex(dout),
		vfC06B(herr != nil))
}

var _ = io.EOF

func TestVerifC10(t *testing.T) {
	sc, w, done := vfC06IO(t)
	defer done()
	for sc.Scan() {
		f := strings.Fields(sc.Text())
		if len(f) < 2 {
			continue
		}
		var line string
		func() {
			defer func() {
				if r := recover(); r != nil {
					line = fmt.Sprintf("%s panic=%q", f[0], fmt.Sprint(r))
				}
			}()
			if f[1] == "RUN" && len(f) == 9 {
				line = vfC10Run(f[0], f[2:])
			}
			if f[1] == "RDR" && len(f) == 5 {
				line = vfC10Redirect(f[0], f[2:])
			}
		}()
		if line != "" {
			w.WriteString(line + "\n")
			w.Flush()
		}
	}
}
