package server

// C14 driver, part D (relay level, server side): the real serveSession between a real unordered
// Session pair (in-memory connections) and a "proxy server" that is a real loopback UDP socket
// (ProxyBook entry with network "udp").  Uplink: client Stream.Write -> serveSession ->
// common.Copy(localConn, newStream) -> UDP datagram at the proxy server.  Downlink: the proxy server
// answers with one datagram -> common.Copy(newStream, localConn) = Stream.ReadFrom(localConn), which
// reads into maxStreamUnitWrite bytes -> client Stream.Read.
//
// input : <id> SUDP <size> ...      (each size on a fresh rig)
// output: <id> max:<maxStreamUnitWrite> up:<size>:<got>:<identical> down:<size>:<got|none>:<identical>:<prefix> ...

import (
	"bufio"
	"bytes"
	"fmt"
	"io"
	"net"
	"os"
	"strings"
	"testing"
	"time"

	"github.com/cbeuw/Cloak/internal/common"
	mux "github.com/cbeuw/Cloak/internal/multiplex"
	"github.com/cbeuw/connutil"
	log "github.com/sirupsen/logrus"
)

func c14SrvPayload(n, tag int) []byte {
	b := make([]byte, n)
	for i := range b {
		b[i] = byte(tag*131 + i*7 + (i>>8)*13 + 1)
	}
	return b
}

func c14SrvB(b bool) string {
	if b {
		return "1"
	}
	return "0"
}

func c14SrvRig(t *testing.T) (client *mux.Session, proxy *net.UDPConn) {
	var key [32]byte
	obfs, err := mux.MakeObfuscator(mux.EncryptionMethodPlain, key)
	if err != nil {
		t.Fatal(err)
	}
	cfg := mux.SessionConfig{Obfuscator: obfs, Unordered: true, MsgOnWireSizeLimit: appDataMaxLength, InactivityTimeout: time.Hour}
	client = mux.MakeSession(1, cfg)
	serverSesh := mux.MakeSession(1, cfg)
	spare := mux.MakeSession(2, cfg) // keeps the user record non-empty whatever happens to session 1
	c, s := connutil.AsyncPipe()
	client.AddConnection(common.NewTLSConn(c))
	serverSesh.AddConnection(common.NewTLSConn(s))
	proxy, err = net.ListenUDP("udp", &net.UDPAddr{IP: net.IPv4(127, 0, 0, 1)})
	if err != nil {
		t.Fatal(err)
	}
	sta := &State{ProxyBook: map[string]net.Addr{"udp": proxy.LocalAddr()}, ProxyDialer: &net.Dialer{}}
	ci := ClientInfo{UID: make([]byte, 16), SessionId: 1, ProxyMethod: "udp", Unordered: true}
	user := &ActiveUser{sessions: map[uint32]*mux.Session{1: serverSesh, 2: spare}}
	go serveSession(serverSesh, ci, user, sta)
	return client, proxy
}

func TestVerifC14SrvUDP(t *testing.T) {
	in, out := os.Getenv("VERIF_IN"), os.Getenv("VERIF_OUT")
	if in == "" || out == "" {
		t.Skip("VERIF_IN / VERIF_OUT not set")
	}
	fi, err := os.Open(in)
	if err != nil {
		t.Fatal(err)
	}
	defer fi.Close()
	fo, err := os.Create(out)
	if err != nil {
		t.Fatal(err)
	}
	defer fo.Close()
	w := bufio.NewWriter(fo)
	defer w.Flush()
	log.SetOutput(io.Discard)
	sc := bufio.NewScanner(fi)
	maxu := appDataMaxLength - 14 - 255
	for sc.Scan() {
		fs := strings.Fields(sc.Text())
		if len(fs) < 3 || fs[1] != "SUDP" {
			continue
		}
		w.WriteString(fs[0] + fmt.Sprintf(" max:%d", maxu))
		for i, szs := range fs[2:] {
			var size int
			fmt.Sscanf(szs, "%d", &size)
			client, proxy := c14SrvRig(t)
			st, err := client.OpenStream()
			if err != nil {
				t.Fatal(err)
			}
			// uplink: the largest datagram the stream accepts, capped at size
			usize := size
			if usize > maxu {
				usize = maxu
			}
			if usize == 0 {
				usize = 1
			}
			up := c14SrvPayload(usize, i+1)
			if n, err := st.Write(up); err != nil || n != len(up) {
				w.WriteString(fmt.Sprintf(" up:%d:writeerr:0", usize))
				continue
			}
			buf := make([]byte, 70000)
			proxy.SetReadDeadline(time.Now().Add(3 * time.Second))
			n, relayAddr, err := proxy.ReadFromUDP(buf)
			if err != nil {
				w.WriteString(fmt.Sprintf(" up:%d:none:0", usize))
				continue
			}
			w.WriteString(fmt.Sprintf(" up:%d:%d:%s", usize, n, c14SrvB(bytes.Equal(buf[:n], up))))
			// downlink: the proxy server answers with one datagram of <size> bytes
			down := c14SrvPayload(size, i+101)
			if _, err := proxy.WriteToUDP(down, relayAddr); err != nil {
				w.WriteString(fmt.Sprintf(" down:%d:senderr:0:0", size))
				continue
			}
			st.SetReadDeadline(time.Now().Add(1500 * time.Millisecond))
			n, err = st.Read(buf)
			if err != nil {
				w.WriteString(fmt.Sprintf(" down:%d:none:0:0", size))
			} else {
				w.WriteString(fmt.Sprintf(" down:%d:%d:%s:%s", size, n, c14SrvB(bytes.Equal(buf[:n], down)),
					c14SrvB(n <= len(down) && bytes.Equal(buf[:n], down[:n]))))
			}
			proxy.Close()
		}
		w.WriteString("\n")
	}
}
