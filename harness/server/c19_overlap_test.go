//go:build goexperiment.synctest

package server

// C19 driver, overlapped admissions: the first connections of ONE limited user reach
// userPanel.GetUser while the user database is still answering the query made for an earlier one,
// then all their sessions are backlogged with data for the user.  Every byte leaving the server is
// time-stamped on the virtual clock of testing/synctest; the oracle (tools/props/c19.py) checks
// every interval against the bound for the user AS A WHOLE and that all sessions hold one valve.
//
// The user database is the UserManager seam: userPanel.Manager is an interface, the driver's manager
// parks a chosen AuthenticateUser call until the schedule releases it.  Whether a later GetUser is
// "locked out until the first is released" (the atomic behaviour of the unchanged code: GetUser keeps
// activeUsersM across the query) is read off the goroutine states - a goroutine waiting for a mutex
// is not durably blocked, so synctest.Wait cannot be the barrier here; the driver polls
// runtime.Stack with runtime.Gosched (no sleeps: the virtual clock must not move during admission).
//
// input :  O <id> <UpRate> <DownRate> <schedule> W:<conn>:<size>:<count>:<gap ns>:<delay ns> ...
//   schedule = comma separated  s<i>[a]  start connection i (session id i+1): GetUser then GetSession;
//                                        a: park it inside Manager.AuthenticateUser
//                             | r<i>     release connection i if it is parked
//   after the schedule everything still parked is released and all admissions finish.
//   W: a writer on connection <conn>'s session (server -> client, the DownRate direction): waits
//   <delay>, then writes <count> times <size> bytes pausing <gap> after each write.
// output:  <id> valves=<distinct valves> records=<distinct ActiveUser> active=<record in the panel is one of them 0|1>
//               states=<after each schedule token, per started connection: P parked | L waiting for a lock | F finished>
//               tx=<q>,<F>,<cap of connection 0's tx bucket> t0=<ns> err=<-|text> | <t ns>:<n>:<conn> ...

import (
	"bufio"
	"fmt"
	"io"
	"net"
	"os"
	"reflect"
	"regexp"
	"runtime"
	"strconv"
	"strings"
	"sync"
	"sync/atomic"
	"syscall"
	"testing"
	"testing/synctest"
	"time"

	mux "github.com/cbeuw/Cloak/internal/multiplex"
	"github.com/cbeuw/Cloak/internal/server/usermanager"
	log "github.com/sirupsen/logrus"
)

type c19ovAdm struct {
	idx     int
	armed   atomic.Bool
	parked  atomic.Bool
	done    atomic.Bool
	goid    atomic.Int64
	release chan struct{}
	user    *ActiveUser
	sesh    *mux.Session
	err     error
}

var c19ovByGoid sync.Map

var c19ovGoidRe = regexp.MustCompile(`^goroutine (\d+) \[`)
var c19ovStatesRe = regexp.MustCompile(`(?m)^goroutine (\d+) \[([^\]]+)\]:`)

func c19ovGoid() int64 {
	var buf [64]byte
	n := runtime.Stack(buf[:], false)
	m := c19ovGoidRe.FindSubmatch(buf[:n])
	if m == nil {
		return -1
	}
	id, _ := strconv.ParseInt(string(m[1]), 10, 64)
	return id
}

var c19ovStackBuf = make([]byte, 1<<21)

func c19ovStates() map[int64]string {
	n := runtime.Stack(c19ovStackBuf, true)
	res := map[int64]string{}
	for _, m := range c19ovStatesRe.FindAllSubmatch(c19ovStackBuf[:n], -1) {
		id, _ := strconv.ParseInt(string(m[1]), 10, 64)
		res[id] = string(m[2])
	}
	return res
}

func c19ovLockWait(st string) bool {
	return strings.Contains(st, "Mutex") || strings.HasPrefix(st, "semacquire")
}

// the user database: one limited user; AuthenticateUser parks the calling admission when it is armed
type c19ovManager struct {
	up, down int64
}

func (m *c19ovManager) AuthenticateUser([]byte) (int64, int64, error) {
	if v, ok := c19ovByGoid.Load(c19ovGoid()); ok {
		a := v.(*c19ovAdm)
		if a.armed.Load() {
			a.armed.Store(false)
			a.parked.Store(true)
			<-a.release
			a.parked.Store(false)
		}
	}
	return m.up, m.down, nil
}
func (m *c19ovManager) AuthoriseNewSession([]byte, usermanager.AuthorisationInfo) error { return nil }
func (m *c19ovManager) UploadStatus([]usermanager.StatusUpdate) ([]usermanager.StatusResponse, error) {
	return nil, nil
}
func (m *c19ovManager) ListAllUsers() ([]usermanager.UserInfo, error) { return nil, nil }
func (m *c19ovManager) GetUserInfo([]byte) (usermanager.UserInfo, error) {
	return usermanager.UserInfo{}, nil
}
func (m *c19ovManager) WriteUserInfo(usermanager.UserInfo) error { return nil }
func (m *c19ovManager) DeleteUser([]byte) error                  { return nil }

// server side of a client connection: counts and time-stamps what the switchboard writes
type c19ovConn struct {
	mu     sync.Mutex
	cond   *sync.Cond
	closed bool
	tap    func(n int)
}

func c19ovNewConn(tap func(n int)) *c19ovConn {
	c := &c19ovConn{tap: tap}
	c.cond = sync.NewCond(&c.mu)
	return c
}
func (c *c19ovConn) Write(b []byte) (int, error) {
	c.tap(len(b))
	return len(b), nil
}
func (c *c19ovConn) Read(b []byte) (int, error) {
	c.mu.Lock()
	defer c.mu.Unlock()
	for !c.closed {
		c.cond.Wait()
	}
	return 0, io.EOF
}
func (c *c19ovConn) Close() error {
	c.mu.Lock()
	c.closed = true
	c.cond.Broadcast()
	c.mu.Unlock()
	return nil
}
func (c *c19ovConn) LocalAddr() net.Addr                { return &net.TCPAddr{} }
func (c *c19ovConn) RemoteAddr() net.Addr               { return &net.TCPAddr{} }
func (c *c19ovConn) SetDeadline(t time.Time) error      { return nil }
func (c *c19ovConn) SetReadDeadline(t time.Time) error  { return nil }
func (c *c19ovConn) SetWriteDeadline(t time.Time) error { return nil }

func c19ovParams(v mux.Valve, field string) string {
	rv := reflect.ValueOf(v)
	if rv.Kind() != reflect.Ptr || rv.Elem().Kind() != reflect.Struct {
		return "-"
	}
	f := rv.Elem().FieldByName(field)
	if !f.IsValid() || f.IsNil() {
		return "-"
	}
	e := f.Elem()
	return fmt.Sprintf("%d,%d,%d", e.FieldByName("quantum").Int(), e.FieldByName("fillInterval").Int(), e.FieldByName("capacity").Int())
}

// settle: every started admission is finished, parked in the manager, or waiting for a lock
// (two consecutive identical polls).  No sleeping: virtual time must not advance.
func c19ovSettle(adms []*c19ovAdm) (string, bool) {
	last := ""
	stable := 0
	for iter := 0; iter < 3000000; iter++ {
		var states map[int64]string
		cur := make([]byte, 0, len(adms))
		all := true
		for _, a := range adms {
			switch {
			case a == nil:
				continue
			case a.done.Load():
				cur = append(cur, 'F')
			case a.parked.Load():
				cur = append(cur, 'P')
			default:
				if states == nil {
					states = c19ovStates()
				}
				id := a.goid.Load()
				if id >= 0 && c19ovLockWait(states[id]) {
					cur = append(cur, 'L')
				} else {
					cur = append(cur, '?')
					all = false
				}
			}
		}
		if all && string(cur) == last {
			stable++
			if stable >= 2 {
				return last, true
			}
		} else {
			stable = 0
		}
		last = string(cur)
		runtime.Gosched()
	}
	return last, false
}

func c19ovB(b bool) string {
	if b {
		return "1"
	}
	return "0"
}

type c19ovEvent struct {
	t    int64
	n    int
	conn int
}

func c19ovScenario(fs []string, w *bufio.Writer) {
	id := fs[1]
	up, _ := strconv.ParseInt(fs[2], 10, 64)
	down, _ := strconv.ParseInt(fs[3], 10, 64)
	uid := []byte{0xC1, 9, 9, 9, 9, 9, 9, 9, 9, 9, 9, 9, 9, 9, 9, 9}
	var arr [16]byte
	copy(arr[:], uid)
	// what MakeUserPanel builds, without its endless upload goroutine
	panel := &userPanel{
		Manager:          &c19ovManager{up: up, down: down},
		activeUsers:      make(map[[16]byte]*ActiveUser),
		usageUpdateQueue: make(map[[16]byte]*usagePair),
		uploadInterval:   time.Hour,
	}
	var key [32]byte
	obfs, _ := mux.MakeObfuscator(mux.EncryptionMethodAES256GCM, key)
	t0 := time.Now().UnixNano()
	var adms []*c19ovAdm
	get := func(i int) *c19ovAdm {
		for len(adms) <= i {
			adms = append(adms, nil)
		}
		return adms[i]
	}
	errText := "-"
	var states []string
	for _, tok := range strings.Split(fs[4], ",") {
		if len(tok) < 2 {
			continue
		}
		armed := strings.HasSuffix(tok, "a")
		i, _ := strconv.Atoi(strings.TrimSuffix(tok[1:], "a"))
		switch tok[0] {
		case 's':
			get(i)
			a := &c19ovAdm{idx: i, release: make(chan struct{})}
			a.armed.Store(armed)
			a.goid.Store(-1)
			adms[i] = a
			go func() {
				gid := c19ovGoid()
				c19ovByGoid.Store(gid, a)
				a.goid.Store(gid)
				defer func() {
					c19ovByGoid.Delete(gid)
					a.done.Store(true)
				}()
				// what dispatchConnection does for a connection: resolve the user, then the session
				u, err := panel.GetUser(uid)
				if err != nil {
					a.err = err
					return
				}
				a.user = u
				s, _, err := u.GetSession(uint32(i+1), mux.SessionConfig{Obfuscator: obfs, InactivityTimeout: 1000 * time.Hour})
				a.sesh, a.err = s, err
			}()
		case 'r':
			if a := get(i); a != nil && a.parked.Load() {
				a.release <- struct{}{}
				for a.parked.Load() {
					runtime.Gosched()
				}
			}
		}
		st, ok := c19ovSettle(adms)
		states = append(states, st)
		if !ok {
			errText = "admissions-did-not-settle-after-" + tok
			break
		}
	}
	// drain: release whatever is still parked until every admission has finished
	for round := 0; round < 2*len(adms)+2 && errText == "-"; round++ {
		alldone := true
		for _, a := range adms {
			if a == nil {
				continue
			}
			if a.parked.Load() {
				a.release <- struct{}{}
				for a.parked.Load() {
					runtime.Gosched()
				}
			}
			if !a.done.Load() {
				alldone = false
			}
		}
		st, ok := c19ovSettle(adms)
		if !ok {
			errText = "admissions-did-not-settle-in-the-drain:" + st
		}
		if alldone {
			break
		}
	}
	valves := map[mux.Valve]bool{}
	records := map[*ActiveUser]bool{}
	for _, a := range adms {
		if a == nil {
			continue
		}
		if !a.done.Load() {
			errText = fmt.Sprintf("admission-%d-never-finished", a.idx)
		} else if a.err != nil || a.sesh == nil {
			errText = fmt.Sprintf("admission-%d-failed:%v", a.idx, a.err)
		} else {
			valves[a.sesh.Valve] = true
			records[a.user] = true
		}
	}
	panel.activeUsersM.RLock()
	inPanel := panel.activeUsers[arr]
	panel.activeUsersM.RUnlock()
	active := inPanel != nil && records[inPanel]
	txp := "-"
	if len(adms) > 0 && adms[0] != nil && adms[0].sesh != nil {
		txp = c19ovParams(adms[0].sesh.Valve, "txtb")
	}
	var mu sync.Mutex
	var events []c19ovEvent
	if errText == "-" {
		for _, a := range adms {
			if a == nil {
				continue
			}
			i := a.idx
			a.sesh.AddConnection(c19ovNewConn(func(n int) {
				mu.Lock()
				events = append(events, c19ovEvent{time.Now().UnixNano(), n, i})
				mu.Unlock()
			}))
		}
		var wg sync.WaitGroup
		for _, tok := range fs[5:] {
			p := strings.Split(tok, ":")
			if len(p) != 6 || p[0] != "W" {
				continue
			}
			ci, _ := strconv.Atoi(p[1])
			size, _ := strconv.Atoi(p[2])
			count, _ := strconv.Atoi(p[3])
			gap, _ := strconv.ParseInt(p[4], 10, 64)
			delay, _ := strconv.ParseInt(p[5], 10, 64)
			if ci >= len(adms) || adms[ci] == nil {
				continue
			}
			st, err := adms[ci].sesh.OpenStream()
			if err != nil {
				errText = "OpenStream:" + err.Error()
				break
			}
			wg.Add(1)
			go func() {
				defer wg.Done()
				time.Sleep(time.Duration(delay))
				buf := make([]byte, size)
				for k := 0; k < count; k++ {
					if _, err := st.Write(buf); err != nil {
						return
					}
					time.Sleep(time.Duration(gap))
				}
			}()
		}
		wg.Wait()
	}
	mu.Lock()
	fmt.Fprintf(w, "%s valves=%d records=%d active=%s states=%s tx=%s t0=%d err=%s |", id, len(valves), len(records), c19ovB(active),
		strings.Join(states, "/"), txp, t0, strings.ReplaceAll(errText, " ", "_"))
	for _, e := range events {
		fmt.Fprintf(w, " %d:%d:%d", e.t, e.n, e.conn)
	}
	w.WriteString("\n")
	mu.Unlock()
}

func TestVerifC19Overlap(t *testing.T) {
	in := os.Getenv("VERIF_IN")
	out := os.Getenv("VERIF_OUT")
	if in == "" || out == "" {
		t.Skip("VERIF_IN / VERIF_OUT not set")
	}
	log.SetOutput(io.Discard)
	data, err := os.ReadFile(in)
	if err != nil {
		t.Fatal(err)
	}
	fo, err := os.Create(out)
	if err != nil {
		t.Fatal(err)
	}
	w := bufio.NewWriterSize(fo, 1<<20)
	synctest.Run(func() {
		for _, line := range strings.Split(string(data), "\n") {
			fs := strings.Fields(line)
			if len(fs) < 5 || fs[0] != "O" {
				continue
			}
			c19ovScenario(fs, w)
		}
		w.WriteString("# done\n")
		w.Flush()
		fo.Close()
		// the sessions leave goroutines blocked in Read: the bubble cannot end normally
		syscall.Exit(0)
	})
}
