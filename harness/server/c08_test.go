//go:build goexperiment.synctest

package server

// C08 driver: histories of presentations / sleeps on the REAL State (registerRandom,
// AuthFirstPacket, UsedRandomCleaner goroutine) under the virtual clock of testing/synctest.
//
// input line : <id> <start abs ns> <tok> ...
//   N:tls:<ts>       new packet #k: real client.DirectTLS.Handshake ClientHello, client clock = ts (Unix s)
//   N:badtag:<ts>    same, then one byte of the sealed block (session id) corrupted
//   N:garbage        0x16 followed by noise (not a ClientHello)
//   N:ws:<ts>        the same kind of credentials presented through the WebSocket transport (upgrade request
//                    with the Hidden header); N:wsbadtag:<ts> with one byte of the sealed block corrupted
//   V:<k>:tls        random (as on the wire) + sealed block of packet k re-packaged as a TLS ClientHello
//                    (V:<k>:r:.. on a WebSocket packet flips bits of the random inside the Hidden header)
//   V:<k>:r:<b1,b2..> packet k with the listed bits (0..255, bit i = byte i/8 bit i%8) of its 32-byte random flipped
//   V:<k>:o:<off>:<mask hex>  packet k with byte <off> xor mask (anywhere in the packet)
//   V:<k>:ws         random + sealed block of packet k re-packaged as a WebSocket upgrade request
//   S:<d ns>         sleep (virtual), then wait until the cleaner goroutines are idle again
//   P:<k>            AuthFirstPacket(packet k)
//   C:<k>:<n>        n goroutines present packet k simultaneously
//   F:<k>:<n>        n presentations of packet k with its random replaced by n distinct fresh values (a flood of
//                    first packets that do not authenticate but are remembered); observed as f<acc>,<replays>,<other>
//   D:<k>:<n>        n presentations of packet k OVERLAPPING deterministically through the clock seam
//                    (State.WorldState.Now is a function): the first presenter is parked inside the clock
//                    read that registerRandom makes (in the unchanged code: while it holds usedRandomM,
//                    between its lookup and its insertion); then the others are started one after the
//                    other and each is watched until it has finished or waits for a lock (goroutine
//                    states; no sleeping, the virtual clock does not move); then the first is released.
//                    Observed like C; the line "#det <id> <op index> <pattern>" adds, per presenter,
//                    P parked in the clock read | L waiting for a lock | F finished, before the release.
// output line: <id> K:<parses>:<random hex>:<ts|->:<block hex|-> ... | <obs>/<cache size>@<abs ns> ...
//   obs = s | a | r | o | c<accepted>,<replays>,<other>
// The K tokens are the abstract view of each packet (model input): whether processFirstPacket
// succeeds, the 32 bytes used as cache key, whether the sealed block opens (and its timestamp).
//
// The bubble contains never-ending cleaner goroutines, so it cannot end normally: the driver
// flushes its output and exits the process from inside the bubble.

import (
	"reflect"
	"bufio"
	"bytes"
	"crypto"
	"regexp"
	"runtime"
	"sync/atomic"
	"encoding/base64"
	"encoding/binary"
	"encoding/hex"
	"errors"
	"fmt"
	"io"
	"math/rand"
	"net"
	"os"
	"strconv"
	"strings"
	"sync"
	"syscall"
	"testing"
	"testing/synctest"
	"time"

	"github.com/cbeuw/Cloak/internal/client"
	"github.com/cbeuw/Cloak/internal/common"
	"github.com/cbeuw/Cloak/internal/ecdh"
)

type c08CapConn struct{ buf bytes.Buffer }

func (c *c08CapConn) Read(b []byte) (int, error)         { return 0, io.EOF }
func (c *c08CapConn) Write(b []byte) (int, error)        { return c.buf.Write(b) }
func (c *c08CapConn) Close() error                       { return nil }
func (c *c08CapConn) LocalAddr() net.Addr                { return &net.TCPAddr{} }
func (c *c08CapConn) RemoteAddr() net.Addr               { return &net.TCPAddr{} }
func (c *c08CapConn) SetDeadline(t time.Time) error      { return nil }
func (c *c08CapConn) SetReadDeadline(t time.Time) error  { return nil }
func (c *c08CapConn) SetWriteDeadline(t time.Time) error { return nil }

type c08Keys struct {
	pv  crypto.PrivateKey
	pub crypto.PublicKey
}

// the first packet a real client sends (captured from DirectTLS.Handshake), client clock = ts
func c08ClientHello(k *c08Keys, rnd *rand.Rand, ts int64) []byte {
	uid := make([]byte, 16)
	rnd.Read(uid)
	ai := client.AuthInfo{
		UID: uid, SessionId: rnd.Uint32(), ProxyMethod: "shadowsocks", EncryptionMethod: 1,
		ServerPubKey: k.pub, MockDomain: "www.bing.com",
		WorldState: common.WorldState{Rand: rnd, Now: func() time.Time { return time.Unix(ts, 0) }},
	}
	conn := &c08CapConn{}
	(&client.DirectTLS{}).Handshake(conn, ai) // fails at the read of the reply (EOF): the hello has been written
	return append([]byte{}, conn.buf.Bytes()...)
}

// ---- the same credentials (32-byte random as it is on the wire + sealed 64-byte block) on either transport
func c08WSPacket(hidden []byte) []byte {
	return []byte("GET / HTTP/1.1\r\nHost: www.bing.com\r\nUpgrade: websocket\r\nConnection: Upgrade\r\n" +
		"Sec-WebSocket-Key: dGhlIHNhbXBsZSBub25jZQ==\r\nSec-WebSocket-Version: 13\r\nhidden: " +
		base64.StdEncoding.EncodeToString(hidden) + "\r\n\r\n")
}

// the decoded Hidden header of a packet built by c08WSPacket
func c08HiddenOf(pkt []byte) ([]byte, bool) {
	if len(pkt) == 0 || pkt[0] != 0x47 {
		return nil, false
	}
	i := bytes.Index(pkt, []byte("\r\nhidden: "))
	if i < 0 {
		return nil, false
	}
	rest := pkt[i+len("\r\nhidden: "):]
	j := bytes.Index(rest, []byte("\r\n"))
	if j < 0 {
		return nil, false
	}
	hidden, err := base64.StdEncoding.DecodeString(string(rest[:j]))
	if err != nil || len(hidden) != 96 {
		return nil, false
	}
	return hidden, true
}

// raw random (as on the wire, NOT as a transport hands it on) and sealed block of a packet
func c08Credentials(k *c08Keys, pkt []byte) (random []byte, block []byte, ok bool) {
	if hidden, isWS := c08HiddenOf(pkt); isWS {
		return hidden[:32], hidden[32:], true
	}
	if len(pkt) > c08TLSRandomOff+32 && pkt[0] == 0x16 {
		fr, _, err := TLS{}.processFirstPacket(pkt, k.pv)
		if err != nil {
			return nil, nil, false
		}
		return append([]byte{}, pkt[c08TLSRandomOff:c08TLSRandomOff+32]...), fr.ciphertextWithTag[:], true
	}
	return nil, nil, false
}

func c08ToWS(k *c08Keys, pkt []byte) []byte {
	random, block, ok := c08Credentials(k, pkt)
	if !ok {
		return pkt
	}
	return c08WSPacket(append(append([]byte{}, random...), block...))
}

// a ClientHello carrying the given credentials: a fresh hello of the same client as template, its random,
// session id and key share (= the sealed block) overwritten
func c08ToTLS(k *c08Keys, rnd *rand.Rand, pkt []byte) []byte {
	random, block, ok := c08Credentials(k, pkt)
	if !ok {
		return pkt
	}
	tpl := c08ClientHello(k, rnd, 0)
	fr, _, err := TLS{}.processFirstPacket(tpl, k.pv)
	if err != nil || len(tpl) < c08TLSRandomOff+32+1+32 || tpl[c08TLSRandomOff+32] != 32 {
		return pkt
	}
	ks := bytes.Index(tpl[c08TLSRandomOff+32+1+32:], fr.ciphertextWithTag[32:64])
	if ks < 0 {
		return pkt
	}
	ks += c08TLSRandomOff + 32 + 1 + 32
	copy(tpl[c08TLSRandomOff:], random)
	copy(tpl[c08TLSRandomOff+32+1:], block[:32])
	copy(tpl[ks:], block[32:64])
	return tpl
}

func c08Transport(pkt []byte) Transport {
	if len(pkt) == 0 {
		return nil
	}
	switch pkt[0] {
	case 0x16:
		return TLS{}
	case 0x47:
		return WebSocket{}
	}
	return nil
}

// abstract view of a packet: parses, random, block, Some ts if the block opens
func c08Facts(k *c08Keys, pkt []byte) string {
	tr := c08Transport(pkt)
	if tr == nil {
		return "K:0:-:-:-"
	}
	fr, _, err := tr.processFirstPacket(pkt, k.pv)
	if err != nil {
		return "K:0:-:-:-"
	}
	ts := "-"
	pt, err := common.AESGCMDecrypt(fr.randPubKey[0:12], fr.sharedSecret[:], fr.ciphertextWithTag[:])
	if err == nil {
		ts = strconv.FormatInt(int64(binary.BigEndian.Uint64(pt[29:37])), 10)
	}
	return "K:1:" + hex.EncodeToString(fr.randPubKey[:]) + ":" + ts + ":" + hex.EncodeToString(fr.ciphertextWithTag[:])
}

// where the 32-byte random sits in a packet (TLS: offset 11; WebSocket: inside base64, not patchable in place)
const c08TLSRandomOff = 11

func c08Class(err error) string {
	switch {
	case err == nil:
		return "a"
	case errors.Is(err, ErrReplay):
		return "r"
	}
	return "o"
}

func c08Present(sta *State, pkt []byte) string {
	tr := c08Transport(pkt)
	if tr == nil {
		return "o" // dispatchConnection: ErrUnrecognisedProtocol, AuthFirstPacket is never reached
	}
	_, _, err := AuthFirstPacket(pkt, tr, sta)
	return c08Class(err)
}

// ---- the clock seam: park the caller of the next clock read made from inside registerRandom
var c08SeamArmed atomic.Bool
var c08SeamParked atomic.Bool
var c08SeamParkedGoid atomic.Int64
var c08SeamRelease = make(chan struct{})

func c08SeamNow() time.Time {
	if c08SeamArmed.Load() {
		pcs := make([]uintptr, 16)
		n := runtime.Callers(2, pcs)
		frames := runtime.CallersFrames(pcs[:n])
		inRegister := false
		for {
			fr, more := frames.Next()
			if strings.HasSuffix(fr.Function, ".registerRandom") {
				inRegister = true
			}
			if !more {
				break
			}
		}
		if inRegister && c08SeamArmed.CompareAndSwap(true, false) {
			c08SeamParkedGoid.Store(c08Goid())
			c08SeamParked.Store(true)
			<-c08SeamRelease
			c08SeamParked.Store(false)
			c08SeamParkedGoid.Store(-1)
		}
	}
	return time.Now()
}

var c08StatesRe = regexp.MustCompile(`(?m)^goroutine (\d+) \[([^\]]+)\]:`)
var c08GoidRe = regexp.MustCompile(`^goroutine (\d+) \[`)
var c08StackBuf = make([]byte, 1<<21)

func c08Goid() int64 {
	var buf [64]byte
	n := runtime.Stack(buf[:], false)
	m := c08GoidRe.FindSubmatch(buf[:n])
	if m == nil {
		return -1
	}
	id, _ := strconv.ParseInt(string(m[1]), 10, 64)
	return id
}

func c08StateOf(goid int64) string {
	n := runtime.Stack(c08StackBuf, true)
	for _, m := range c08StatesRe.FindAllSubmatch(c08StackBuf[:n], -1) {
		id, _ := strconv.ParseInt(string(m[1]), 10, 64)
		if id == goid {
			return string(m[2])
		}
	}
	return ""
}

type c08Presenter struct {
	goid atomic.Int64
	done atomic.Bool
	res  string
}

// watch: until the presenter has finished, is parked in the clock read (first only), or waits for a
// lock, in two consecutive polls.  No sleeping: the virtual clock must not move.
func c08Watch(p *c08Presenter, first bool) byte {
	last := byte('?')
	for iter := 0; iter < 3000000; iter++ {
		cur := byte('?')
		if p.done.Load() {
			cur = 'F'
		} else if id := p.goid.Load(); id >= 0 && c08SeamParked.Load() && c08SeamParkedGoid.Load() == id {
			cur = 'P'
		} else if id >= 0 {
			st := c08StateOf(id)
			if strings.Contains(st, "Mutex") || strings.HasPrefix(st, "semacquire") {
				cur = 'L'
			}
		}
		if cur != '?' && cur == last {
			return cur
		}
		last = cur
		runtime.Gosched()
	}
	return '?'
}

func c08Overlap(sta *State, pkt []byte, n int) (map[string]int, string) {
	ps := make([]*c08Presenter, n)
	start := func(i int) {
		p := &c08Presenter{}
		p.goid.Store(-1)
		ps[i] = p
		go func() {
			p.goid.Store(c08Goid())
			p.res = c08Present(sta, pkt)
			p.done.Store(true)
		}()
	}
	c08SeamArmed.Store(true)
	start(0)
	pattern := []byte{c08Watch(ps[0], true)}
	for i := 1; i < n; i++ {
		start(i)
		pattern = append(pattern, c08Watch(ps[i], false))
	}
	c08SeamArmed.Store(false)
	if c08SeamParked.Load() {
		c08SeamRelease <- struct{}{}
	}
	cnt := map[string]int{}
	for _, p := range ps {
		for iter := 0; iter < 3000000 && !p.done.Load(); iter++ {
			runtime.Gosched()
		}
		if p.done.Load() {
			cnt[p.res]++
		} else {
			cnt["o"]++
			pattern = append(pattern, '!')
		}
	}
	return cnt, string(pattern)
}

func c08CacheSize(sta *State) int {
	sta.usedRandomM.RLock()
	defer sta.usedRandomM.RUnlock()
	return len(sta.UsedRandom)
}

func c08RunCase(k *c08Keys, line string, w *bufio.Writer) {
	fs := strings.Fields(line)
	if len(fs) < 2 {
		return
	}
	start, _ := strconv.ParseInt(fs[1], 10, 64)
	if d := time.Until(time.Unix(0, start)); d > 0 {
		time.Sleep(d)
		synctest.Wait()
	}
	seed := int64(0)
	for _, c := range fs[0] {
		seed = seed*131 + int64(c)
	}
	rnd := rand.New(rand.NewSource(seed))
	// the real State, as InitState leaves it for this property: empty cache, cleaner running
	sta := &State{StaticPv: k.pv, UsedRandom: map[[32]byte]int64{}}
	sta.WorldState = common.WorldState{Rand: rnd, Now: c08SeamNow} // follows the bubble's virtual time; the seam for D: tokens
	// a numeric field of State this harness has never heard of (an option added later) is given a large value: how long
	// a handshake stays acceptable, and how long it is remembered, must not drift apart because of it.  On the code as
	// it is there is no such field and this does nothing.
	c08SetUnknownNumbers(sta)
	go sta.UsedRandomCleaner()
	var pkts [][]byte
	var facts, obs, dets []string
	floodCtr := uint64(0)
	stamp := func(o string) {
		obs = append(obs, fmt.Sprintf("%s/%d@%d", o, c08CacheSize(sta), time.Now().UnixNano()))
	}
	for _, tok := range fs[2:] {
		p := strings.Split(tok, ":")
		switch p[0] {
		case "N":
			var pkt []byte
			switch p[1] {
			case "tls", "badtag":
				ts, _ := strconv.ParseInt(p[2], 10, 64)
				pkt = c08ClientHello(k, rnd, ts)
				if p[1] == "badtag" {
					pkt[c08TLSRandomOff+32+1+5] ^= 0x10 // inside the 32-byte session id = first half of the sealed block
				}
			case "ws", "wsbadtag":
				// the same credentials presented through the WebSocket transport (Hidden header of the upgrade request)
				ts, _ := strconv.ParseInt(p[2], 10, 64)
				pkt = c08ToWS(k, c08ClientHello(k, rnd, ts))
				if p[1] == "wsbadtag" {
					if hidden, ok := c08HiddenOf(pkt); ok {
						hidden[32+5] ^= 0x10
						pkt = c08WSPacket(hidden)
					}
				}
			case "garbage":
				pkt = make([]byte, 200)
				rnd.Read(pkt)
				pkt[0] = 0x16
			}
			pkts = append(pkts, pkt)
			facts = append(facts, c08Facts(k, pkt))
		case "V":
			ki, _ := strconv.Atoi(p[1])
			pkt := append([]byte{}, pkts[ki]...)
			switch p[2] {
			case "r":
				if hidden, ok := c08HiddenOf(pkt); ok {
					// a WebSocket packet: the 32-byte random is the first part of the base64 Hidden header
					for _, bs := range strings.Split(p[3], ",") {
						b, _ := strconv.Atoi(bs)
						hidden[b/8] ^= 1 << uint(b%8)
					}
					pkt = c08WSPacket(hidden)
					break
				}
				for _, bs := range strings.Split(p[3], ",") {
					b, _ := strconv.Atoi(bs)
					pkt[c08TLSRandomOff+b/8] ^= 1 << uint(b%8)
				}
			case "o":
				off, _ := strconv.Atoi(p[3])
				m, _ := strconv.ParseUint(p[4], 16, 8)
				if off < len(pkt) {
					pkt[off] ^= byte(m)
				}
			case "ws":
				pkt = c08ToWS(k, pkt)
			case "tls":
				pkt = c08ToTLS(k, rnd, pkt)
			}
			pkts = append(pkts, pkt)
			facts = append(facts, c08Facts(k, pkt))
		case "S":
			d, _ := strconv.ParseInt(p[1], 10, 64)
			time.Sleep(time.Duration(d))
			synctest.Wait() // every cleaner that woke up has finished its sweep and sleeps again
			stamp("s")
		case "P":
			ki, _ := strconv.Atoi(p[1])
			stamp(c08Present(sta, pkts[ki]))
		case "C":
			ki, _ := strconv.Atoi(p[1])
			n, _ := strconv.Atoi(p[2])
			res := make([]string, n)
			var wg sync.WaitGroup
			gate := make(chan struct{})
			for i := 0; i < n; i++ {
				wg.Add(1)
				go func(i int) {
					defer wg.Done()
					<-gate
					res[i] = c08Present(sta, pkts[ki])
				}(i)
			}
			synctest.Wait() // all n are parked at the gate
			close(gate)
			wg.Wait()
			cnt := map[string]int{}
			for _, r := range res {
				cnt[r]++
			}
			stamp(fmt.Sprintf("c%d,%d,%d", cnt["a"], cnt["r"], cnt["o"]))
		case "F":
			// flood: n first packets with DISTINCT fresh randoms (packet k with its random overwritten by a
			// counter that never repeats within the history; needs no keys).  They do not authenticate but
			// are remembered.  Observed as f<accepted>,<replays>,<other>.
			ki, _ := strconv.Atoi(p[1])
			n, _ := strconv.Atoi(p[2])
			random, block, ok := c08Credentials(k, pkts[ki])
			cnt := map[string]int{}
			if ok {
				hidden := append(append([]byte{}, random...), block...)
				tlsPkt := append([]byte{}, pkts[ki]...)
				isWS := pkts[ki][0] == 0x47
				for i := 0; i < n; i++ {
					floodCtr++
					var r [32]byte
					binary.BigEndian.PutUint64(r[0:8], floodCtr)
					binary.BigEndian.PutUint64(r[8:16], ^floodCtr)
					r[16] = 0xF1
					var pkt []byte
					if isWS {
						copy(hidden[:32], r[:])
						pkt = c08WSPacket(hidden)
					} else {
						copy(tlsPkt[c08TLSRandomOff:], r[:])
						pkt = tlsPkt
					}
					cnt[c08Present(sta, pkt)]++
				}
			}
			stamp(fmt.Sprintf("f%d,%d,%d", cnt["a"], cnt["r"], cnt["o"]))
		case "D":
			ki, _ := strconv.Atoi(p[1])
			n, _ := strconv.Atoi(p[2])
			cnt, pattern := c08Overlap(sta, pkts[ki], n)
			dets = append(dets, fmt.Sprintf("#det %s %d %s", fs[0], len(obs), pattern))
			stamp(fmt.Sprintf("c%d,%d,%d", cnt["a"], cnt["r"], cnt["o"]))
		}
	}
	for _, d := range dets {
		w.WriteString(d + "\n")
	}
	w.WriteString(fs[0] + " " + strings.Join(facts, " ") + " | " + strings.Join(obs, " ") + "\n")
}

func TestVerifC08(t *testing.T) {
	in := os.Getenv("VERIF_IN")
	out := os.Getenv("VERIF_OUT")
	if in == "" || out == "" {
		t.Skip("VERIF_IN / VERIF_OUT not set")
	}
	data, err := os.ReadFile(in)
	if err != nil {
		t.Fatal(err)
	}
	fo, err := os.Create(out)
	if err != nil {
		t.Fatal(err)
	}
	w := bufio.NewWriterSize(fo, 1<<20)
	pvb, _ := hex.DecodeString("10de5a3c4a4d04efafc3e06d1506363a72bd6d053baef123e6a9a79a0c04b547")
	pv, _ := ecdh.Unmarshal(pvb)
	// public key of that private key
	_, pub0, _ := ecdh.GenerateKey(bytes.NewReader(pvb))
	keys := &c08Keys{pv: pv.(crypto.PrivateKey), pub: pub0}
	synctest.Run(func() {
		fmt.Fprintf(w, "# bubble starts at %d\n", time.Now().UnixNano())
		for _, line := range strings.Split(string(data), "\n") {
			if strings.TrimSpace(line) == "" {
				continue
			}
			c08RunCase(keys, line, w)
		}
		w.WriteString("# done\n")
		w.Flush()
		fo.Close()
		// cleaner goroutines never end: the bubble cannot be left normally.  (os.Exit(0) is
		// intercepted by package testing; the raw exit is not.)
		syscall.Exit(0)
	})
}


var c08KnownStateFields = map[string]bool{"ProxyBook": true, "ProxyDialer": true, "WorldState": true, "AdminUID": true, "BypassUID": true,
	"StaticPv": true, "RedirHost": true, "RedirPort": true, "RedirDialer": true, "usedRandomM": true, "UsedRandom": true, "Panel": true}

func c08SetUnknownNumbers(sta *State) {
	rv := reflect.ValueOf(sta).Elem()
	for i := 0; i < rv.NumField(); i++ {
		f := rv.Field(i)
		if c08KnownStateFields[rv.Type().Field(i).Name] || !f.CanSet() {
			continue
		}
		switch f.Kind() {
		case reflect.Int, reflect.Int8, reflect.Int16, reflect.Int32, reflect.Int64:
			f.SetInt(100000 * 1000000000) // 100000 s if it is a time.Duration
		case reflect.Uint, reflect.Uint8, reflect.Uint16, reflect.Uint32, reflect.Uint64:
			f.SetUint(100000)
		}
	}
}
