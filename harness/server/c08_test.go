//go:build goexperiment.synctest

package server

// C08 driver: histories of presentations / sleeps on the REAL State (registerRandom,
// AuthFirstPacket, UsedRandomCleaner goroutine) under the virtual clock of testing/synctest.
//
// input line : <id> <start abs ns> <tok> ...
//   N:tls:<ts>       new packet #k: real client.DirectTLS.Handshake ClientHello, client clock = ts (Unix s)
//   N:badtag:<ts>    same, then one byte of the sealed block (session id) corrupted
//   N:garbage        0x16 followed by noise (not a ClientHello)
//   V:<k>:r:<b1,b2..> packet k with the listed bits (0..255, bit i = byte i/8 bit i%8) of its 32-byte random flipped
//   V:<k>:o:<off>:<mask hex>  packet k with byte <off> xor mask (anywhere in the packet)
//   V:<k>:ws         random + sealed block of packet k re-packaged as a WebSocket upgrade request
//   S:<d ns>         sleep (virtual), then wait until the cleaner goroutines are idle again
//   P:<k>            AuthFirstPacket(packet k)
//   C:<k>:<n>        n goroutines present packet k simultaneously
// output line: <id> K:<parses>:<random hex>:<ts|->:<block hex|-> ... | <obs>/<cache size>@<abs ns> ...
//   obs = s | a | r | o | c<accepted>,<replays>,<other>
// The K tokens are the abstract view of each packet (model input): whether processFirstPacket
// succeeds, the 32 bytes used as cache key, whether the sealed block opens (and its timestamp).
//
// The bubble contains never-ending cleaner goroutines, so it cannot end normally: the driver
// flushes its output and exits the process from inside the bubble.

import (
	"bufio"
	"bytes"
	"crypto"
	"encoding/base64"
	"encoding/binary"
	"encoding/hex"
	"errors"
	"fmt"
	"io"
	"math/rand"
	"net"
	"os"
	"strconv"
	"strings"
	"sync"
	"syscall"
	"testing"
	"testing/synctest"
	"time"

	"github.com/cbeuw/Cloak/internal/client"
	"github.com/cbeuw/Cloak/internal/common"
	"github.com/cbeuw/Cloak/internal/ecdh"
)

type c08CapConn struct{ buf bytes.Buffer }

func (c *c08CapConn) Read(b []byte) (int, error)         { return 0, io.EOF }
func (c *c08CapConn) Write(b []byte) (int, error)        { return c.buf.Write(b) }
func (c *c08CapConn) Close() error                       { return nil }
func (c *c08CapConn) LocalAddr() net.Addr                { return &net.TCPAddr{} }
func (c *c08CapConn) RemoteAddr() net.Addr               { return &net.TCPAddr{} }
func (c *c08CapConn) SetDeadline(t time.Time) error      { return nil }
func (c *c08CapConn) SetReadDeadline(t time.Time) error  { return nil }
func (c *c08CapConn) SetWriteDeadline(t time.Time) error { return nil }

type c08Keys struct {
	pv  crypto.PrivateKey
	pub crypto.PublicKey
}

// the first packet a real client sends (captured from DirectTLS.Handshake), client clock = ts
func c08ClientHello(k *c08Keys, rnd *rand.Rand, ts int64) []byte {
	uid := make([]byte, 16)
	rnd.Read(uid)
	ai := client.AuthInfo{
		UID: uid, SessionId: rnd.Uint32(), ProxyMethod: "shadowsocks", EncryptionMethod: 1,
		ServerPubKey: k.pub, MockDomain: "www.bing.com",
		WorldState: common.WorldState{Rand: rnd, Now: func() time.Time { return time.Unix(ts, 0) }},
	}
	conn := &c08CapConn{}
	(&client.DirectTLS{}).Handshake(conn, ai) // fails at the read of the reply (EOF): the hello has been written
	return append([]byte{}, conn.buf.Bytes()...)
}

func c08Transport(pkt []byte) Transport {
	if len(pkt) == 0 {
		return nil
	}
	switch pkt[0] {
	case 0x16:
		return TLS{}
	case 0x47:
		return WebSocket{}
	}
	return nil
}

// abstract view of a packet: parses, random, block, Some ts if the block opens
func c08Facts(k *c08Keys, pkt []byte) string {
	tr := c08Transport(pkt)
	if tr == nil {
		return "K:0:-:-:-"
	}
	fr, _, err := tr.processFirstPacket(pkt, k.pv)
	if err != nil {
		return "K:0:-:-:-"
	}
	ts := "-"
	pt, err := common.AESGCMDecrypt(fr.randPubKey[0:12], fr.sharedSecret[:], fr.ciphertextWithTag[:])
	if err == nil {
		ts = strconv.FormatInt(int64(binary.BigEndian.Uint64(pt[29:37])), 10)
	}
	return "K:1:" + hex.EncodeToString(fr.randPubKey[:]) + ":" + ts + ":" + hex.EncodeToString(fr.ciphertextWithTag[:])
}

// where the 32-byte random sits in a packet (TLS: offset 11; WebSocket: inside base64, not patchable in place)
const c08TLSRandomOff = 11

func c08Class(err error) string {
	switch {
	case err == nil:
		return "a"
	case errors.Is(err, ErrReplay):
		return "r"
	}
	return "o"
}

func c08Present(sta *State, pkt []byte) string {
	tr := c08Transport(pkt)
	if tr == nil {
		return "o" // dispatchConnection: ErrUnrecognisedProtocol, AuthFirstPacket is never reached
	}
	_, _, err := AuthFirstPacket(pkt, tr, sta)
	return c08Class(err)
}

func c08CacheSize(sta *State) int {
	sta.usedRandomM.RLock()
	defer sta.usedRandomM.RUnlock()
	return len(sta.UsedRandom)
}

func c08RunCase(k *c08Keys, line string, w *bufio.Writer) {
	fs := strings.Fields(line)
	if len(fs) < 2 {
		return
	}
	start, _ := strconv.ParseInt(fs[1], 10, 64)
	if d := time.Until(time.Unix(0, start)); d > 0 {
		time.Sleep(d)
		synctest.Wait()
	}
	seed := int64(0)
	for _, c := range fs[0] {
		seed = seed*131 + int64(c)
	}
	rnd := rand.New(rand.NewSource(seed))
	// the real State, as InitState leaves it for this property: empty cache, cleaner running
	sta := &State{StaticPv: k.pv, UsedRandom: map[[32]byte]int64{}}
	sta.WorldState = common.WorldState{Rand: rnd, Now: time.Now} // follows the bubble's virtual time
	go sta.UsedRandomCleaner()
	var pkts [][]byte
	var facts, obs []string
	stamp := func(o string) {
		obs = append(obs, fmt.Sprintf("%s/%d@%d", o, c08CacheSize(sta), time.Now().UnixNano()))
	}
	for _, tok := range fs[2:] {
		p := strings.Split(tok, ":")
		switch p[0] {
		case "N":
			var pkt []byte
			switch p[1] {
			case "tls", "badtag":
				ts, _ := strconv.ParseInt(p[2], 10, 64)
				pkt = c08ClientHello(k, rnd, ts)
				if p[1] == "badtag" {
					pkt[c08TLSRandomOff+32+1+5] ^= 0x10 // inside the 32-byte session id = first half of the sealed block
				}
			case "garbage":
				pkt = make([]byte, 200)
				rnd.Read(pkt)
				pkt[0] = 0x16
			}
			pkts = append(pkts, pkt)
			facts = append(facts, c08Facts(k, pkt))
		case "V":
			ki, _ := strconv.Atoi(p[1])
			pkt := append([]byte{}, pkts[ki]...)
			switch p[2] {
			case "r":
				for _, bs := range strings.Split(p[3], ",") {
					b, _ := strconv.Atoi(bs)
					pkt[c08TLSRandomOff+b/8] ^= 1 << uint(b%8)
				}
			case "o":
				off, _ := strconv.Atoi(p[3])
				m, _ := strconv.ParseUint(p[4], 16, 8)
				if off < len(pkt) {
					pkt[off] ^= byte(m)
				}
			case "ws":
				fr, _, err := TLS{}.processFirstPacket(pkt, k.pv)
				if err == nil {
					hidden := append(append([]byte{}, fr.randPubKey[:]...), fr.ciphertextWithTag[:]...)
					pkt = []byte("GET / HTTP/1.1\r\nHost: www.bing.com\r\nUpgrade: websocket\r\nConnection: Upgrade\r\n" +
						"Sec-WebSocket-Key: dGhlIHNhbXBsZSBub25jZQ==\r\nSec-WebSocket-Version: 13\r\nhidden: " +
						base64.StdEncoding.EncodeToString(hidden) + "\r\n\r\n")
				}
			}
			pkts = append(pkts, pkt)
			facts = append(facts, c08Facts(k, pkt))
		case "S":
			d, _ := strconv.ParseInt(p[1], 10, 64)
			time.Sleep(time.Duration(d))
			synctest.Wait() // every cleaner that woke up has finished its sweep and sleeps again
			stamp("s")
		case "P":
			ki, _ := strconv.Atoi(p[1])
			stamp(c08Present(sta, pkts[ki]))
		case "C":
			ki, _ := strconv.Atoi(p[1])
			n, _ := strconv.Atoi(p[2])
			res := make([]string, n)
			var wg sync.WaitGroup
			gate := make(chan struct{})
			for i := 0; i < n; i++ {
				wg.Add(1)
				go func(i int) {
					defer wg.Done()
					<-gate
					res[i] = c08Present(sta, pkts[ki])
				}(i)
			}
			synctest.Wait() // all n are parked at the gate
			close(gate)
			wg.Wait()
			cnt := map[string]int{}
			for _, r := range res {
				cnt[r]++
			}
			stamp(fmt.Sprintf("c%d,%d,%d", cnt["a"], cnt["r"], cnt["o"]))
		}
	}
	w.WriteString(fs[0] + " " + strings.Join(facts, " ") + " | " + strings.Join(obs, " ") + "\n")
}

func TestVerifC08(t *testing.T) {
	in := os.Getenv("VERIF_IN")
	out := os.Getenv("VERIF_OUT")
	if in == "" || out == "" {
		t.Skip("VERIF_IN / VERIF_OUT not set")
	}
	data, err := os.ReadFile(in)
	if err != nil {
		t.Fatal(err)
	}
	fo, err := os.Create(out)
	if err != nil {
		t.Fatal(err)
	}
	w := bufio.NewWriterSize(fo, 1<<20)
	pvb, _ := hex.DecodeString("10de5a3c4a4d04efafc3e06d1506363a72bd6d053baef123e6a9a79a0c04b547")
	pv, _ := ecdh.Unmarshal(pvb)
	// public key of that private key
	_, pub0, _ := ecdh.GenerateKey(bytes.NewReader(pvb))
	keys := &c08Keys{pv: pv.(crypto.PrivateKey), pub: pub0}
	synctest.Run(func() {
		fmt.Fprintf(w, "# bubble starts at %d\n", time.Now().UnixNano())
		for _, line := range strings.Split(string(data), "\n") {
			if strings.TrimSpace(line) == "" {
				continue
			}
			c08RunCase(keys, line, w)
		}
		w.WriteString("# done\n")
		w.Flush()
		fo.Close()
		// cleaner goroutines never end: the bubble cannot be left normally.  (os.Exit(0) is
		// intercepted by package testing; the raw exit is not.)
		syscall.Exit(0)
	})
}
