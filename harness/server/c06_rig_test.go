package server

// Rig shared by the C06 and C10 drivers (same worker; injected with go test -overlay, nothing is
// written into /repo):
//   - deterministic randomness for both ends (so that the ephemeral key is known to the harness)
//   - buffered in-memory connection pair (own implementation: deadline errors are net.Errors) with a passive tap on every byte in both directions
//   - a hand-built server State (one bypass user, a proxy book with one entry served by an echo
//     dialer, a recording redirect dialer, fixed clock)
//   - the real client transports (client.RawConfig.ProcessRawConfig -> CreateTransport -> Handshake)
//   - for the CDN transport: a crypto/tls terminator with a self-signed certificate in front of
//     dispatchConnection (the client uses InsecureSkipVerify); the tap sits on the plaintext

import (
	"sync/atomic"
	"bufio"
	"bytes"
	"crypto/ecdsa"
	"crypto/elliptic"
	crand "crypto/rand"
	"crypto/sha256"
	"crypto/tls"
	"crypto/x509"
	"crypto/x509/pkix"
	"encoding/binary"
	"encoding/hex"
	"errors"
	"fmt"
	"io"
	"math/big"
	"net"
	"net/http"
	"os"
	"strings"
	"sync"
	"testing"
	"time"

	"github.com/cbeuw/Cloak/internal/client"
	"github.com/cbeuw/Cloak/internal/common"
	mux "github.com/cbeuw/Cloak/internal/multiplex"
	"github.com/cbeuw/Cloak/internal/server/usermanager"
	"golang.org/x/crypto/curve25519"
)

func vfC06Hex(b []byte) string {
	if len(b) == 0 {
		return "-"
	}
	return hex.EncodeToString(b)
}

func vfC06Unhex(s string) []byte {
	if s == "-" || s == "" {
		return []byte{}
	}
	b, err := hex.DecodeString(s)
	if err != nil {
		panic("bad hex " + s)
	}
	return b
}

func vfC06B(b bool) string {
	if b {
		return "1"
	}
	return "0"
}

func vfC06IO(t *testing.T) (*bufio.Scanner, *bufio.Writer, func()) {
	in := os.Getenv("VERIF_IN")
	out := os.Getenv("VERIF_OUT")
	if in == "" || out == "" {
		t.Skip("VERIF_IN / VERIF_OUT not set")
	}
	fi, err := os.Open(in)
	if err != nil {
		t.Fatal(err)
	}
	fo, err := os.Create(out)
	if err != nil {
		t.Fatal(err)
	}
	sc := bufio.NewScanner(fi)
	sc.Buffer(make([]byte, 1<<20), 1<<28)
	w := bufio.NewWriterSize(fo, 1<<20)
	return sc, w, func() { w.Flush(); fo.Close(); fi.Close() }
}

// ------------------------------------------------------------------------------------------
// deterministic random source: SHA-256 in counter mode over a seed
type vfC06Rand struct {
	mu   sync.Mutex
	seed []byte
	ctr  uint64
	buf  []byte
	log  []byte // everything handed out, in order
}

func vfC06NewRand(seed string) *vfC06Rand { return &vfC06Rand{seed: []byte(seed)} }

func (r *vfC06Rand) Read(p []byte) (int, error) {
	r.mu.Lock()
	defer r.mu.Unlock()
	for i := range p {
		if len(r.buf) == 0 {
			var c [8]byte
			binary.BigEndian.PutUint64(c[:], r.ctr)
			r.ctr++
			h := sha256.Sum256(append(append([]byte{}, r.seed...), c[:]...))
			r.buf = h[:]
		}
		p[i] = r.buf[0]
		r.buf = r.buf[1:]
	}
	r.log = append(r.log, p...)
	return len(p), nil
}

// ------------------------------------------------------------------------------------------
// buffered in-memory full-duplex pipe whose deadline errors are os.ErrDeadlineExceeded (a net.Error
// with Timeout() == true, as a TCP connection returns: crypto/tls and net/http depend on that)
type vfC06Half struct {
	mu     sync.Mutex
	cond   *sync.Cond
	buf    []byte
	closed bool
	rdl    time.Time
	timer  *time.Timer
}

func vfC06NewHalf() *vfC06Half {
	h := &vfC06Half{}
	h.cond = sync.NewCond(&h.mu)
	return h
}

func (h *vfC06Half) read(p []byte) (int, error) {
	h.mu.Lock()
	defer h.mu.Unlock()
	for {
		if len(h.buf) > 0 {
			n := copy(p, h.buf)
			h.buf = h.buf[n:]
			return n, nil
		}
		if h.closed {
			return 0, io.EOF
		}
		if !h.rdl.IsZero() && !time.Now().Before(h.rdl) {
			return 0, os.ErrDeadlineExceeded
		}
		if len(p) == 0 {
			return 0, nil
		}
		h.cond.Wait()
	}
}

func (h *vfC06Half) write(p []byte) (int, error) {
	h.mu.Lock()
	defer h.mu.Unlock()
	if h.closed {
		return 0, io.ErrClosedPipe
	}
	h.buf = append(h.buf, p...)
	h.cond.Broadcast()
	return len(p), nil
}

func (h *vfC06Half) close() {
	h.mu.Lock()
	h.closed = true
	h.cond.Broadcast()
	h.mu.Unlock()
}

func (h *vfC06Half) setReadDeadline(t time.Time) {
	h.mu.Lock()
	h.rdl = t
	if h.timer != nil {
		h.timer.Stop()
		h.timer = nil
	}
	if !t.IsZero() {
		d := time.Until(t)
		if d < 0 {
			d = 0
		}
		h.timer = time.AfterFunc(d, func() { h.mu.Lock(); h.cond.Broadcast(); h.mu.Unlock() })
	}
	h.cond.Broadcast()
	h.mu.Unlock()
}

type vfC06PipeEnd struct {
	in, out *vfC06Half
	name    string
}

type vfC06Addr struct{ s string }

func (a vfC06Addr) Network() string { return "tcp" }
func (a vfC06Addr) String() string  { return a.s }

func (e *vfC06PipeEnd) Read(p []byte) (int, error)  { return e.in.read(p) }
func (e *vfC06PipeEnd) Write(p []byte) (int, error) { return e.out.write(p) }
func (e *vfC06PipeEnd) Close() error {
	e.in.close()
	e.out.close()
	return nil
}
func (e *vfC06PipeEnd) LocalAddr() net.Addr  { return vfC06Addr{"10.0.0.1:443"} }
func (e *vfC06PipeEnd) RemoteAddr() net.Addr { return vfC06Addr{"10.9.9.9:50000"} }
func (e *vfC06PipeEnd) SetDeadline(t time.Time) error {
	e.in.setReadDeadline(t)
	return nil
}
func (e *vfC06PipeEnd) SetReadDeadline(t time.Time) error {
	e.in.setReadDeadline(t)
	return nil
}
func (e *vfC06PipeEnd) SetWriteDeadline(t time.Time) error { return nil }

func vfC06Pipe() (net.Conn, net.Conn) {
	ab, ba := vfC06NewHalf(), vfC06NewHalf()
	return &vfC06PipeEnd{in: ba, out: ab, name: "a"}, &vfC06PipeEnd{in: ab, out: ba, name: "b"}
}

// ------------------------------------------------------------------------------------------
// tap: records every byte read from and written to the wrapped conn (as seen by its user)
type vfC06Tap struct {
	net.Conn
	mu      sync.Mutex
	rd      []byte   // bytes the user of this end has read (i.e. what the peer sent)
	wr      []byte   // bytes the user of this end has written
	writes  [][]byte // the individual Write calls
	closed  bool
	onWrite func()
}

func (c *vfC06Tap) Read(p []byte) (int, error) {
	n, err := c.Conn.Read(p)
	if n > 0 {
		c.mu.Lock()
		c.rd = append(c.rd, p[:n]...)
		c.mu.Unlock()
	}
	return n, err
}

func (c *vfC06Tap) Write(p []byte) (int, error) {
	c.mu.Lock()
	c.wr = append(c.wr, p...)
	c.writes = append(c.writes, append([]byte{}, p...))
	c.mu.Unlock()
	return c.Conn.Write(p)
}

func (c *vfC06Tap) Close() error {
	c.mu.Lock()
	c.closed = true
	c.mu.Unlock()
	return c.Conn.Close()
}

func (c *vfC06Tap) snapshot() (rd, wr []byte, writes [][]byte) {
	c.mu.Lock()
	defer c.mu.Unlock()
	rd = append([]byte{}, c.rd...)
	wr = append([]byte{}, c.wr...)
	writes = append([][]byte{}, c.writes...)
	return
}

// ------------------------------------------------------------------------------------------
// dialers: proxy target = echo; redirect target = recorder (a redirect means the server did NOT
// treat the connection as Cloak)
type vfC06EchoDialer struct {
	mu    sync.Mutex
	dials int
}

func (d *vfC06EchoDialer) Dial(network, address string) (net.Conn, error) {
	d.mu.Lock()
	d.dials++
	d.mu.Unlock()
	a, b := vfC06Pipe()
	go func() {
		io.Copy(b, b)
		b.Close()
	}()
	return a, nil
}

type vfC06RedirDialer struct {
	mu    sync.Mutex
	dials int
	ch    chan struct{}
}

func (d *vfC06RedirDialer) Dial(network, address string) (net.Conn, error) {
	d.mu.Lock()
	d.dials++
	d.mu.Unlock()
	select {
	case d.ch <- struct{}{}:
	default:
	}
	return nil, errors.New("redirect target not available in this rig")
}

// ------------------------------------------------------------------------------------------
type vfC06Keys struct {
	spv  [32]byte
	spub [32]byte
}

func vfC06MakeKeys(seed string) *vfC06Keys {
	k := &vfC06Keys{}
	h := sha256.Sum256([]byte("static-key:" + seed))
	copy(k.spv[:], h[:])
	k.spv[0] &= 248
	k.spv[31] &= 127
	k.spv[31] |= 64
	curve25519.ScalarBaseMult(&k.spub, &k.spv)
	return k
}

// one panel per case: a late TerminateActiveUser of an earlier case must not delete the record of a
// later case with the same UID (MakeUserPanel starts one sleeping goroutine per panel)
func vfC06NewPanel() *userPanel { return MakeUserPanel(&usermanager.Voidmanager{}) }

type vfC06Server struct {
	sta   *State
	echo  *vfC06EchoDialer
	redir *vfC06RedirDialer
	rnd   *vfC06Rand
}

// a State as InitState would build it, minus the never-ending cleaner goroutine
func vfC06NewServer(k *vfC06Keys, uid []byte, method string, now time.Time, seed string, panel *userPanel) *vfC06Server {
	s := &vfC06Server{echo: &vfC06EchoDialer{}, redir: &vfC06RedirDialer{ch: make(chan struct{}, 4)}, rnd: vfC06NewRand("server:" + seed)}
	pv := k.spv
	sta := &State{
		ProxyBook:   map[string]net.Addr{method: &net.TCPAddr{IP: net.IPv4(127, 0, 0, 1), Port: 9}},
		ProxyDialer: s.echo,
		WorldState:  common.WorldState{Rand: s.rnd, Now: func() time.Time { return now }},
		BypassUID:   make(map[[16]byte]struct{}),
		StaticPv:    &pv,
		RedirHost:   &net.IPAddr{IP: net.IPv4(127, 0, 0, 1)},
		RedirPort:   "80",
		RedirDialer: s.redir,
		UsedRandom:  map[[32]byte]int64{},
		Panel:       panel,
	}
	var arr [16]byte
	copy(arr[:], uid)
	sta.BypassUID[arr] = struct{}{}
	s.sta = sta
	return s
}

// ------------------------------------------------------------------------------------------
type vfC06Cfg struct {
	transport  string // direct | cdn
	browser    string // chrome | firefox | safari
	encName    string // plain | aes-gcm | aes-128-gcm | chacha20-poly1305 ...
	sid        uint32
	unordered  bool
	serverName string
	uid        []byte
	method     string
	clientNow  time.Time
	seed       string
}

type vfC06Client struct {
	tr    client.Transport
	auth  client.AuthInfo
	rnd   *vfC06Rand
	ephPv []byte
	ePub  []byte
}

func vfC06NewClient(k *vfC06Keys, c vfC06Cfg) (*vfC06Client, error) {
	raw := client.RawConfig{
		ServerName:       c.serverName,
		ProxyMethod:      c.method,
		EncryptionMethod: c.encName,
		UID:              c.uid,
		PublicKey:        k.spub[:],
		NumConn:          1,
		LocalHost:        "127.0.0.1",
		LocalPort:        "1984",
		RemoteHost:       "10.0.0.1",
		RemotePort:       "443",
		UDP:              c.unordered,
		BrowserSig:       c.browser,
		Transport:        c.transport,
	}
	rnd := vfC06NewRand("client:" + c.seed)
	now := c.clientNow
	ws := common.WorldState{Rand: rnd, Now: func() time.Time { return now }}
	_, remote, auth, err := raw.ProcessRawConfig(ws)
	if err != nil {
		return nil, err
	}
	auth.SessionId = c.sid
	cl := &vfC06Client{tr: remote.Transport.CreateTransport(), auth: auth, rnd: rnd}
	// the ephemeral key ecdh.GenerateKey will derive from the first 32 bytes of the random source
	pre := vfC06NewRand("client:" + c.seed)
	var pv, pub [32]byte
	io.ReadFull(pre, pv[:])
	pv[0] &= 248
	pv[31] &= 127
	pv[31] |= 64
	curve25519.ScalarBaseMult(&pub, &pv)
	cl.ephPv = pv[:]
	cl.ePub = pub[:]
	return cl, nil
}

var vfC06CertOnce sync.Once
var vfC06Cert tls.Certificate

func vfC06SelfSigned() tls.Certificate {
	vfC06CertOnce.Do(func() {
		key, err := ecdsa.GenerateKey(elliptic.P256(), crand.Reader)
		if err != nil {
			panic(err)
		}
		tmpl := &x509.Certificate{
			SerialNumber: big.NewInt(1),
			Subject:      pkix.Name{CommonName: "verif-cdn"},
			NotBefore:    time.Now().Add(-time.Hour),
			NotAfter:     time.Now().Add(24 * time.Hour),
			KeyUsage:     x509.KeyUsageDigitalSignature,
			ExtKeyUsage:  []x509.ExtKeyUsage{x509.ExtKeyUsageServerAuth},
		}
		der, err := x509.CreateCertificate(crand.Reader, tmpl, tmpl, &key.PublicKey, key)
		if err != nil {
			panic(err)
		}
		vfC06Cert = tls.Certificate{Certificate: [][]byte{der}, PrivateKey: key}
	})
	return vfC06Cert
}

// one connection: client end, server end (tapped on what dispatchConnection sees)
type vfC06Link struct {
	clientEnd net.Conn
	tap       *vfC06Tap // wraps the conn handed to dispatchConnection
	done      chan struct{}
}

// starts the server side of one connection.  For cdn the TLS terminator runs first.
func vfC06Connect(srv *vfC06Server, cdn bool) *vfC06Link {
	a, b := vfC06Pipe()
	l := &vfC06Link{clientEnd: a, done: make(chan struct{})}
	if !cdn {
		l.tap = &vfC06Tap{Conn: b}
		go func() {
			defer close(l.done)
			dispatchConnection(l.tap, srv.sta)
		}()
		return l
	}
	tc := tls.Server(b, &tls.Config{Certificates: []tls.Certificate{vfC06SelfSigned()}})
	// what a CDN edge hands to the origin arrives in whatever pieces TCP makes of it: the last 0..4 bytes of the
	// upgrade request's header are delivered by a read of their own (0 = the header in one piece)
	l.tap = &vfC06Tap{Conn: &vfC06Seg{Conn: tc, tail: int(atomic.AddUint32(&vfC06SegCounter, 1) % 5)}}
	go func() {
		defer close(l.done)
		if err := tc.Handshake(); err != nil {
			b.Close()
			return
		}
		dispatchConnection(l.tap, srv.sta)
	}()
	return l
}

var vfC06SegCounter uint32

// vfC06Seg delivers the HTTP header that opens the connection in two pieces: everything but its last `tail`
// bytes, then the rest; later reads pass through
type vfC06Seg struct {
	net.Conn
	tail   int
	phase  int
	pend   []byte
	header []byte
}

func (c *vfC06Seg) Read(p []byte) (int, error) {
	if c.phase == 0 {
		c.phase = 1
		if c.tail > 0 {
			buf := make([]byte, 4096)
			for !bytes.Contains(c.header, []byte("\r\n\r\n")) && len(c.header) < 60000 {
				n, err := c.Conn.Read(buf)
				c.header = append(c.header, buf[:n]...)
				if err != nil {
					break
				}
			}
			c.pend = c.header
		}
	}
	if len(c.pend) > 0 {
		// first everything but the last `tail` bytes (in as many reads as the caller's buffers need), then the tail
		k := len(c.pend)
		if k > c.tail {
			k -= c.tail
		}
		if k > len(p) {
			k = len(p)
		}
		n := copy(p, c.pend[:k])
		c.pend = c.pend[n:]
		return n, nil
	}
	return c.Conn.Read(p)
}

// the `hidden` header of the HTTP request the server saw; the 60-byte payload of the first
// WebSocket binary frame after the 101 response
func vfC06HiddenOf(req []byte) string {
	r, err := http.ReadRequest(bufio.NewReader(bytes.NewReader(req)))
	if err != nil {
		return ""
	}
	return r.Header.Get("hidden")
}

func vfC06WsFirstMessage(serverWrote []byte) []byte {
	i := bytes.Index(serverWrote, []byte("\r\n\r\n"))
	if i < 0 {
		return nil
	}
	fr := serverWrote[i+4:]
	if len(fr) < 2 || fr[0] != 0x82 || fr[1]&0x80 != 0 {
		return nil
	}
	n := int(fr[1] & 0x7f)
	off := 2
	if n == 126 {
		if len(fr) < 4 {
			return nil
		}
		n = int(binary.BigEndian.Uint16(fr[2:4]))
		off = 4
	} else if n == 127 {
		return nil
	}
	if len(fr) < off+n {
		return nil
	}
	return fr[off : off+n]
}

// the server's session for (uid, sid), if the panel has it
func vfC06FindSession(panel *userPanel, uid []byte, sid uint32) *mux.Session {
	var arr [16]byte
	copy(arr[:], uid)
	panel.activeUsersM.RLock()
	u := panel.activeUsers[arr]
	panel.activeUsersM.RUnlock()
	if u == nil {
		return nil
	}
	u.sessionsM.RLock()
	defer u.sessionsM.RUnlock()
	return u.sessions[sid]
}

func vfC06CloseSession(panel *userPanel, uid []byte, sid uint32) {
	var arr [16]byte
	copy(arr[:], uid)
	panel.activeUsersM.RLock()
	u := panel.activeUsers[arr]
	panel.activeUsersM.RUnlock()
	if u != nil {
		u.CloseSession(sid, "")
	}
}

func vfC06ErrClass(err error) string {
	switch {
	case err == nil:
		return "nil"
	case errors.Is(err, ErrBadClientHello):
		return "hello"
	case errors.Is(err, ErrReplay):
		return "replay"
	case errors.Is(err, ErrBadDecryption) && strings.Contains(err.Error(), ErrTimestampOutOfWindow.Error()):
		return "window"
	case errors.Is(err, ErrBadDecryption):
		return "decrypt"
	case strings.Contains(err.Error(), "low order point") || strings.Contains(err.Error(), "bad X25519 remote ECDH input"):
		return "dh"
	case strings.Contains(err.Error(), "failed to unmarshal"):
		return "hello"
	case strings.Contains(err.Error(), "failed to parse first HTTP GET"):
		return "hello"
	}
	return "other:" + strings.ReplaceAll(err.Error(), " ", "_")
}

func vfC06ShowCI(ci ClientInfo) string {
	return fmt.Sprintf("A:%s:%s:%x:%x:%s", vfC06Hex(ci.UID), vfC06Hex([]byte(ci.ProxyMethod)), ci.EncryptionMethod, ci.SessionId, vfC06B(ci.Unordered))
}
