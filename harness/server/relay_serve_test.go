package server

// Relay driver, part 3: the real serveSession between a real Session pair (one in-memory connection) and a
// "proxy server" connection owned by the harness (handed out by a harness ProxyDialer).
//
//   * the dialer can be held back (gate) so that everything the client does - write its bytes, close the
//     stream - has reached the server before the two relay goroutines start;
//   * the proxy connection's Write waits a moment for a Close to happen first (a Close that overtakes the
//     write makes it fail, as on a real connection), so a relay goroutine that closes the connection while the
//     other still holds bytes is seen deterministically;
//   * its Read blocks (a silent proxy server) unless the case scripts bytes to send / an EOF.
//
// input : <id> S <gate 0|1> <client chunk sizes a,b,..|-> <client closes 0|1> <proxy chunk sizes|-> <proxy eof 0|1>
//         (byte i of client chunk k = (k*53 + i*7 + 1) mod 256; of proxy chunk k = (k*91 + i*5 + 3) mod 256)
// output: <id> got=<len>:<ok|BAD:first difference> closed=<0|1> down=<len>:<ok|BAD..> cliEnd=<0|1> wedged=<0|1> cwfail=<a client Write failed 0|1>
//   got    what the proxy connection was handed, compared with the concatenation of the client's chunks
//   closed the relay closed the proxy connection
//   down   what the client read from the stream, compared with the proxy's chunks
//   cliEnd the client's reads ended with an error (the stream was closed towards it)

import (
	"bufio"
	"errors"
	"fmt"
	"io"
	"net"
	"os"
	"strconv"
	"strings"
	"sync"
	"testing"
	"time"

	"github.com/cbeuw/Cloak/internal/common"
	mux "github.com/cbeuw/Cloak/internal/multiplex"
	"github.com/cbeuw/connutil"
)

type rlSrvProxy struct {
	mu       sync.Mutex
	cond     *sync.Cond
	got      []byte
	closed   bool
	send     [][]byte
	eof      bool
	closedCh chan struct{}
}

func (p *rlSrvProxy) Read(b []byte) (int, error) {
	p.mu.Lock()
	defer p.mu.Unlock()
	for {
		if p.closed {
			return 0, errors.New("use of closed connection")
		}
		if len(p.send) > 0 {
			n := copy(b, p.send[0])
			if n < len(p.send[0]) {
				p.send[0] = p.send[0][n:]
			} else {
				p.send = p.send[1:]
			}
			return n, nil
		}
		if p.eof {
			return 0, io.EOF
		}
		p.cond.Wait()
	}
}

func (p *rlSrvProxy) Write(b []byte) (int, error) {
	// a Close that is on its way overtakes this write
	select {
	case <-p.closedCh:
	case <-time.After(40 * time.Millisecond):
	}
	p.mu.Lock()
	defer p.mu.Unlock()
	if p.closed {
		return 0, errors.New("use of closed connection")
	}
	p.got = append(p.got, b...)
	return len(b), nil
}

func (p *rlSrvProxy) Close() error {
	p.mu.Lock()
	if !p.closed {
		p.closed = true
		close(p.closedCh)
	}
	p.cond.Broadcast()
	p.mu.Unlock()
	return nil
}
func (p *rlSrvProxy) LocalAddr() net.Addr                { return rlSrvAddr("relay") }
func (p *rlSrvProxy) RemoteAddr() net.Addr               { return rlSrvAddr("proxy") }
func (p *rlSrvProxy) SetDeadline(t time.Time) error      { return nil }
func (p *rlSrvProxy) SetReadDeadline(t time.Time) error  { return nil }
func (p *rlSrvProxy) SetWriteDeadline(t time.Time) error { return nil }

type rlSrvAddr string

func (a rlSrvAddr) Network() string { return "tcp" }
func (a rlSrvAddr) String() string  { return string(a) }

type rlSrvDialer struct {
	gate  chan struct{}
	conn  *rlSrvProxy
	dials chan struct{}
}

func (d *rlSrvDialer) Dial(network, address string) (net.Conn, error) {
	select {
	case d.dials <- struct{}{}:
	default:
	}
	<-d.gate
	return d.conn, nil
}

func rlSrvChunk(k, n, a, b, c int) []byte {
	out := make([]byte, n)
	for i := range out {
		out[i] = byte(k*a + i*b + c)
	}
	return out
}

func rlSrvSizes(s string) []int {
	var out []int
	if s == "-" {
		return out
	}
	for _, x := range strings.Split(s, ",") {
		n, _ := strconv.Atoi(x)
		out = append(out, n)
	}
	return out
}

func rlSrvCmp(got, want []byte) string {
	if len(got) == len(want) {
		same := true
		for i := range got {
			if got[i] != want[i] {
				same = false
				break
			}
		}
		if same {
			return fmt.Sprintf("%d:ok", len(got))
		}
	}
	k := 0
	for k < len(got) && k < len(want) && got[k] == want[k] {
		k++
	}
	return fmt.Sprintf("%d:BAD:want-%d-first-difference-at-%d", len(got), len(want), k)
}

func rlSrvCase(f []string) string {
	gate := f[2] == "1"
	csizes, ccloses := rlSrvSizes(f[3]), f[4] == "1"
	psizes, peof := rlSrvSizes(f[5]), f[6] == "1"
	var key [32]byte
	obfs, err := mux.MakeObfuscator(mux.EncryptionMethodPlain, key)
	if err != nil {
		panic(err)
	}
	cfg := mux.SessionConfig{Obfuscator: obfs, MsgOnWireSizeLimit: appDataMaxLength, InactivityTimeout: time.Hour}
	client := mux.MakeSession(1, cfg)
	serverSesh := mux.MakeSession(1, cfg)
	spare := mux.MakeSession(2, cfg)
	c, s := connutil.AsyncPipe()
	client.AddConnection(common.NewTLSConn(c))
	serverSesh.AddConnection(common.NewTLSConn(s))
	defer client.Close()
	defer serverSesh.Close()
	proxy := &rlSrvProxy{closedCh: make(chan struct{}), eof: peof}
	proxy.cond = sync.NewCond(&proxy.mu)
	var pwant []byte
	for k, n := range psizes {
		ch := rlSrvChunk(k, n, 91, 5, 3)
		proxy.send = append(proxy.send, ch)
		pwant = append(pwant, ch...)
	}
	d := &rlSrvDialer{gate: make(chan struct{}), conn: proxy, dials: make(chan struct{}, 1)}
	if !gate {
		close(d.gate)
	}
	sta := &State{ProxyBook: map[string]net.Addr{"tcp": rlSrvAddr("proxy")}, ProxyDialer: d}
	ci := ClientInfo{UID: make([]byte, 16), SessionId: 1, ProxyMethod: "tcp"}
	user := &ActiveUser{sessions: map[uint32]*mux.Session{1: serverSesh, 2: spare}}
	go serveSession(serverSesh, ci, user, sta)

	st, err := client.OpenStream()
	if err != nil {
		return "open-failed"
	}
	var cwant []byte
	cwfail := false
	for k, n := range csizes {
		ch := rlSrvChunk(k, n, 53, 7, 1)
		cwant = append(cwant, ch...)
		if _, err := st.Write(ch); err != nil {
			// legitimate when the proxy side has ended meanwhile (the relay has closed the stream); judged by the oracle
			cwfail = true
			break
		}
	}
	// what the client reads from the stream
	var dmu sync.Mutex
	var down []byte
	cliEnd := make(chan struct{})
	go func() {
		buf := make([]byte, 70000)
		for {
			n, err := st.Read(buf)
			dmu.Lock()
			down = append(down, buf[:n]...)
			dmu.Unlock()
			if err != nil {
				close(cliEnd)
				return
			}
		}
	}()
	if ccloses {
		st.Close()
	}
	if gate {
		select {
		case <-d.dials:
		case <-time.After(10 * time.Second):
		}
		time.Sleep(60 * time.Millisecond) // the frames sent so far have long been processed by the server's receive loop
		close(d.gate)
	}
	wedged := false
	waitFor := func(cond func() bool, dur time.Duration) bool {
		dl := time.Now().Add(dur)
		for !cond() {
			if time.Now().After(dl) {
				return false
			}
			time.Sleep(300 * time.Microsecond)
		}
		return true
	}
	gotLen := func() int { proxy.mu.Lock(); defer proxy.mu.Unlock(); return len(proxy.got) }
	isClosed := func() bool { proxy.mu.Lock(); defer proxy.mu.Unlock(); return proxy.closed }
	downLen := func() int { dmu.Lock(); defer dmu.Unlock(); return len(down) }
	if ccloses || peof {
		// one side ends: the relay must wind down and close the proxy connection
		if !waitFor(isClosed, 15*time.Second) {
			wedged = true
		}
	} else {
		if !waitFor(func() bool { return gotLen() >= len(cwant) && downLen() >= len(pwant) }, 15*time.Second) {
			wedged = true
		}
	}
	ended := false
	if ccloses || peof {
		select {
		case <-cliEnd:
			ended = true
		case <-time.After(5 * time.Second):
		}
	}
	proxy.mu.Lock()
	got := append([]byte(nil), proxy.got...)
	closed := proxy.closed
	proxy.mu.Unlock()
	dmu.Lock()
	dn := append([]byte(nil), down...)
	dmu.Unlock()
	b := func(x bool) string {
		if x {
			return "1"
		}
		return "0"
	}
	return fmt.Sprintf("got=%s closed=%s down=%s cliEnd=%s wedged=%s cwfail=%s", rlSrvCmp(got, cwant), b(closed), rlSrvCmp(dn, pwant), b(ended), b(wedged), b(cwfail))
}

func rlSrvIO(t *testing.T) (*bufio.Scanner, *bufio.Writer, func()) {
	in, out := os.Getenv("VERIF_IN"), os.Getenv("VERIF_OUT")
	if in == "" || out == "" {
		t.Skip("VERIF_IN / VERIF_OUT not set")
	}
	fi, err := os.Open(in)
	if err != nil {
		t.Fatal(err)
	}
	fo, err := os.Create(out)
	if err != nil {
		t.Fatal(err)
	}
	sc := bufio.NewScanner(fi)
	sc.Buffer(make([]byte, 1<<20), 1<<26)
	w := bufio.NewWriter(fo)
	return sc, w, func() { w.Flush(); fo.Close(); fi.Close() }
}

func TestVerifRelayServe(t *testing.T) {
	sc, w, done := rlSrvIO(t)
	defer done()
	for sc.Scan() {
		f := strings.Fields(sc.Text())
		if len(f) != 7 || f[1] != "S" {
			continue
		}
		fmt.Fprintf(w, "%s %s\n", f[0], rlSrvCase(f))
		w.Flush()
	}
}
