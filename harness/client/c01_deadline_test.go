//go:build goexperiment.synctest

package client

// C01 relay driver, deadlines: client.RouteTCP between a harness-owned local connection that HONOURS
// the deadlines armed on it (as a TCP connection does: a Read or Write attempted at or after the armed
// instant fails with a timeout error; SetDeadline arms both halves) and a real Session pair, on the
// virtual clock of testing/synctest (time.Now inside RouteTCP is the bubble's clock, so the timeline
// below is exact and independent of machine load).
//
// Timeline of one case: the connection is accepted at t0; its first packet arrives d1 later; then a
// script of idle gaps and transfers in both directions, typically long after t0 + StreamTimeout.
// Expected (first packet in time): every byte arrives in both directions whenever it is sent, the
// relay closes neither the local connection nor the stream.  A first packet later than StreamTimeout
// is the documented time-out of RouteTCP (connection closed, no stream) and doubles as the check
// that the harness connection really enforces deadlines.
//
// input : <id> DL <StreamTimeout ms> <d1 ms> <step> ...
//   G:<ms> idle   U:<n> local->remote n bytes   D:<n> remote->local n bytes (written by the far end)
// output: <id> streams=<n> up=<got>/<sent> down=<got>/<sent> upok=<0|1> downok=<0|1> closed=<0|1> eos=<0|1> armed=<r|w|rw|-> calls=<log>
//   closed: Close was called on the local connection; eos: the far end's stream read failed;
//   armed: deadlines still armed on the local connection at the end

import (
	"bytes"
	"fmt"
	"io"
	"net"
	"strconv"
	"strings"
	"sync"
	"syscall"
	"testing"
	"testing/synctest"
	"time"

	"github.com/cbeuw/Cloak/internal/common"
	mux "github.com/cbeuw/Cloak/internal/multiplex"
	log "github.com/sirupsen/logrus"
)

type c01DlTimeout struct{}

func (c01DlTimeout) Error() string   { return "c01dl: i/o timeout" }
func (c01DlTimeout) Timeout() bool   { return true }
func (c01DlTimeout) Temporary() bool { return true }

// one direction of an in-memory connection: unbounded message queue, condition variable only
// (a goroutine waiting here is durably blocked for synctest)
type c01DlHalf struct {
	mu     sync.Mutex
	cond   *sync.Cond
	q      [][]byte
	closed bool
}

func newC01DlHalf() *c01DlHalf { h := &c01DlHalf{}; h.cond = sync.NewCond(&h.mu); return h }

type c01DlPipe struct{ in, out *c01DlHalf }

func (p *c01DlPipe) Read(b []byte) (int, error) {
	h := p.in
	h.mu.Lock()
	defer h.mu.Unlock()
	for len(h.q) == 0 && !h.closed {
		h.cond.Wait()
	}
	if len(h.q) == 0 {
		return 0, io.EOF
	}
	n := copy(b, h.q[0])
	if n < len(h.q[0]) {
		h.q[0] = h.q[0][n:]
	} else {
		h.q = h.q[1:]
	}
	return n, nil
}
func (p *c01DlPipe) Write(b []byte) (int, error) {
	h := p.out
	h.mu.Lock()
	defer h.mu.Unlock()
	if h.closed {
		return 0, io.ErrClosedPipe
	}
	h.q = append(h.q, append([]byte(nil), b...))
	h.cond.Broadcast()
	return len(b), nil
}
func (p *c01DlPipe) Close() error {
	for _, h := range []*c01DlHalf{p.in, p.out} {
		h.mu.Lock()
		h.closed = true
		h.cond.Broadcast()
		h.mu.Unlock()
	}
	return nil
}
func (p *c01DlPipe) LocalAddr() net.Addr                { return c01RtAddr("pipe") }
func (p *c01DlPipe) RemoteAddr() net.Addr               { return c01RtAddr("pipe") }
func (p *c01DlPipe) SetDeadline(t time.Time) error      { return nil }
func (p *c01DlPipe) SetReadDeadline(t time.Time) error  { return nil }
func (p *c01DlPipe) SetWriteDeadline(t time.Time) error { return nil }

// the local connection: honours deadlines
type c01DlLocal struct {
	mu       sync.Mutex
	cond     *sync.Cond
	in       []byte
	down     []byte
	closed   bool
	rdl, wdl time.Time
	t0       time.Time
	calls    []string
}

func newC01DlLocal() *c01DlLocal {
	l := &c01DlLocal{t0: time.Now()}
	l.cond = sync.NewCond(&l.mu)
	return l
}

func (l *c01DlLocal) note(what string, t time.Time) {
	when := "zero"
	if !t.IsZero() {
		when = fmt.Sprintf("+%dms", t.Sub(l.t0).Milliseconds())
	}
	l.calls = append(l.calls, fmt.Sprintf("%s(%s)@%dms", what, when, time.Since(l.t0).Milliseconds()))
}

func (l *c01DlLocal) Read(p []byte) (int, error) {
	l.mu.Lock()
	defer l.mu.Unlock()
	for {
		if !l.rdl.IsZero() && !time.Now().Before(l.rdl) {
			return 0, c01DlTimeout{}
		}
		if len(l.in) > 0 {
			break
		}
		if l.closed {
			return 0, io.EOF
		}
		if !l.rdl.IsZero() {
			tm := time.AfterFunc(time.Until(l.rdl), func() { l.mu.Lock(); l.cond.Broadcast(); l.mu.Unlock() })
			l.cond.Wait()
			tm.Stop()
		} else {
			l.cond.Wait()
		}
	}
	n := copy(p, l.in)
	l.in = l.in[n:]
	return n, nil
}

func (l *c01DlLocal) Write(p []byte) (int, error) {
	l.mu.Lock()
	defer l.mu.Unlock()
	if l.closed {
		return 0, io.ErrClosedPipe
	}
	if !l.wdl.IsZero() && !time.Now().Before(l.wdl) {
		return 0, c01DlTimeout{}
	}
	l.down = append(l.down, p...)
	return len(p), nil
}

func (l *c01DlLocal) Close() error {
	l.mu.Lock()
	l.closed = true
	l.calls = append(l.calls, fmt.Sprintf("Close@%dms", time.Since(l.t0).Milliseconds()))
	l.cond.Broadcast()
	l.mu.Unlock()
	return nil
}
func (l *c01DlLocal) SetDeadline(t time.Time) error {
	l.mu.Lock()
	l.rdl, l.wdl = t, t
	l.note("SetDeadline", t)
	l.cond.Broadcast()
	l.mu.Unlock()
	return nil
}
func (l *c01DlLocal) SetReadDeadline(t time.Time) error {
	l.mu.Lock()
	l.rdl = t
	l.note("SetReadDeadline", t)
	l.cond.Broadcast()
	l.mu.Unlock()
	return nil
}
func (l *c01DlLocal) SetWriteDeadline(t time.Time) error {
	l.mu.Lock()
	l.wdl = t
	l.note("SetWriteDeadline", t)
	l.cond.Broadcast()
	l.mu.Unlock()
	return nil
}
func (l *c01DlLocal) LocalAddr() net.Addr  { return c01RtAddr("local") }
func (l *c01DlLocal) RemoteAddr() net.Addr { return c01RtAddr("app") }
func (l *c01DlLocal) feed(b []byte) {
	l.mu.Lock()
	l.in = append(l.in, b...)
	l.cond.Broadcast()
	l.mu.Unlock()
}

type c01DlFar struct {
	mu      sync.Mutex
	streams []net.Conn
	up      []byte
	eos     bool
}

func (f *c01DlFar) serve(sesh *mux.Session) {
	for {
		st, err := sesh.Accept()
		if err != nil {
			return
		}
		f.mu.Lock()
		f.streams = append(f.streams, st)
		f.mu.Unlock()
		go func() {
			buf := make([]byte, 70000)
			for {
				n, err := st.Read(buf)
				f.mu.Lock()
				f.up = append(f.up, buf[:n]...)
				if err != nil {
					f.eos = true
				}
				f.mu.Unlock()
				if err != nil {
					return
				}
			}
		}()
	}
}

func c01DlRun(fs []string) string {
	atoi := func(s string) int { n, _ := strconv.Atoi(s); return n }
	T := time.Duration(atoi(fs[2])) * time.Millisecond
	d1 := time.Duration(atoi(fs[3])) * time.Millisecond
	var key [32]byte
	obfs, _ := mux.MakeObfuscator(mux.EncryptionMethodPlain, key)
	cfg := mux.SessionConfig{Obfuscator: obfs, MsgOnWireSizeLimit: appDataMaxLength, InactivityTimeout: 1000 * time.Hour}
	clientSesh, serverSesh := mux.MakeSession(1, cfg), mux.MakeSession(1, cfg)
	for i := 0; i < 2; i++ {
		a, b := newC01DlHalf(), newC01DlHalf()
		clientSesh.AddConnection(common.NewTLSConn(&c01DlPipe{in: a, out: b}))
		serverSesh.AddConnection(common.NewTLSConn(&c01DlPipe{in: b, out: a}))
	}
	far := &c01DlFar{}
	go far.serve(serverSesh)
	ln := &c01RtListener{ch: make(chan net.Conn, 1)}
	go RouteTCP(ln, T, false, func() *mux.Session { return clientSesh })
	synctest.Wait()
	local := newC01DlLocal()
	ln.ch <- local
	synctest.Wait()
	time.Sleep(d1)
	var sentUp, sentDown []byte
	first := c01RtPayload(64, 'F')
	sentUp = append(sentUp, first...)
	local.feed(first)
	synctest.Wait()
	for k, stp := range fs[4:] {
		p := strings.Split(stp, ":")
		n := atoi(p[1])
		switch p[0] {
		case "G":
			time.Sleep(time.Duration(n) * time.Millisecond)
		case "U":
			b := c01RtPayload(n, byte('a'+k%26))
			sentUp = append(sentUp, b...)
			local.feed(b)
		case "D":
			b := c01RtPayload(n, byte('A'+k%26))
			far.mu.Lock()
			var st net.Conn
			if len(far.streams) > 0 {
				st = far.streams[0]
			}
			far.mu.Unlock()
			sentDown = append(sentDown, b...)
			if st != nil {
				done := make(chan struct{})
				go func() { st.Write(b); close(done) }()
				synctest.Wait()
				select {
				case <-done:
				default:
				}
			}
		}
		synctest.Wait()
	}
	synctest.Wait()
	far.mu.Lock()
	up, ns, eos := append([]byte(nil), far.up...), len(far.streams), far.eos
	far.mu.Unlock()
	local.mu.Lock()
	down, closed := append([]byte(nil), local.down...), local.closed
	armed := ""
	if !local.rdl.IsZero() {
		armed += "r"
	}
	if !local.wdl.IsZero() {
		armed += "w"
	}
	if armed == "" {
		armed = "-"
	}
	calls := strings.Join(local.calls, ",")
	local.mu.Unlock()
	res := fmt.Sprintf("%s streams=%d up=%d/%d down=%d/%d upok=%s downok=%s closed=%s eos=%s armed=%s calls=%s", fs[0], ns, len(up), len(sentUp), len(down), len(sentDown),
		vfB(bytes.Equal(up, sentUp)), vfB(bytes.Equal(down, sentDown)), vfB(closed), vfB(eos), armed, calls)
	local.Close()
	clientSesh.Close()
	serverSesh.Close()
	synctest.Wait()
	return res
}

func TestVerifC01Deadline(t *testing.T) {
	sc, w, done := vfIO(t)
	log.SetOutput(io.Discard)
	synctest.Run(func() {
		for sc.Scan() {
			fs := vfFields(sc.Text())
			if len(fs) < 4 || fs[1] != "DL" {
				continue
			}
			res := func() (res string) {
				defer func() {
					if e := recover(); e != nil {
						res = fs[0] + " PANIC:" + strings.ReplaceAll(fmt.Sprint(e), " ", "_")
					}
				}()
				return c01DlRun(fs)
			}()
			w.WriteString(res + "\n")
		}
		done()
		// RouteTCP goroutines never leave Accept: the bubble cannot end normally
		syscall.Exit(0)
	})
}
