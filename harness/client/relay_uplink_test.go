package client

// Relay driver, part 2: the real client.RouteTCP fed by ONE scripted local connection (the script dictates
// what every Read call returns: bytes + error) into a real client Session whose peer is a real server
// Session over one in-memory connection.  The far end accepts the stream and reads it to its end.
//
// input : <id> U <reads>      reads = r,r,..   r = <hex|->:<n|e|o>   (bytes, error nil / io.EOF / other)
// output: <id> up=<hex|-> accepted=<0|1> ended=<0|1> closed=<0|1> late=<0|1> wedged=<0|1>
//   up       bytes the far end read from the stream, in order
//   accepted the far end was given a stream
//   ended    the far end's reads ended (closing notice arrived) BEFORE the driver closed the session
//   closed   the relay closed the local connection
//   late     the stream only appeared after the driver had given up waiting for it (verdict unreliable: retry)
//   wedged   the relay did not close the local connection within the patience of the driver

import (
	"errors"
	"fmt"
	"io"
	"net"
	"strings"
	"sync"
	"testing"
	"time"

	"github.com/cbeuw/Cloak/internal/common"
	mux "github.com/cbeuw/Cloak/internal/multiplex"
	"github.com/cbeuw/connutil"
)

type rlUpRd struct {
	data []byte
	err  byte
}

type rlUpLocal struct {
	mu       sync.Mutex
	reads    []rlUpRd
	pend     []byte
	pendE    byte
	closedCh chan struct{}
	once     sync.Once
	down     []byte
}

var errRlUpRead = errors.New("relay driver: scripted read error")

func (l *rlUpLocal) Read(p []byte) (int, error) {
	l.mu.Lock()
	defer l.mu.Unlock()
	var data []byte
	var e byte
	if l.pend != nil {
		data, e = l.pend, l.pendE
		l.pend = nil
	} else if len(l.reads) == 0 {
		return 0, io.EOF
	} else {
		data, e = l.reads[0].data, l.reads[0].err
		l.reads = l.reads[1:]
	}
	n := copy(p, data)
	if n < len(data) {
		l.pend, l.pendE = data[n:], e
		return n, nil
	}
	switch e {
	case 'e':
		return n, io.EOF
	case 'o':
		return n, errRlUpRead
	}
	return n, nil
}
func (l *rlUpLocal) Write(p []byte) (int, error) {
	l.mu.Lock()
	l.down = append(l.down, p...)
	l.mu.Unlock()
	return len(p), nil
}
func (l *rlUpLocal) Close() error                       { l.once.Do(func() { close(l.closedCh) }); return nil }
func (l *rlUpLocal) SetReadDeadline(t time.Time) error  { return nil }
func (l *rlUpLocal) SetDeadline(t time.Time) error      { return nil }
func (l *rlUpLocal) SetWriteDeadline(t time.Time) error { return nil }
func (l *rlUpLocal) LocalAddr() net.Addr                { return rlUpAddr("local") }
func (l *rlUpLocal) RemoteAddr() net.Addr               { return rlUpAddr("app") }

type rlUpAddr string

func (a rlUpAddr) Network() string { return "rlup" }
func (a rlUpAddr) String() string  { return string(a) }

type rlUpListener struct{ ch chan net.Conn }

func (l *rlUpListener) Accept() (net.Conn, error) {
	c, ok := <-l.ch
	if !ok {
		select {}
	}
	return c, nil
}
func (l *rlUpListener) Close() error   { return nil }
func (l *rlUpListener) Addr() net.Addr { return rlUpAddr("listener") }

func rlUpCase(reads []rlUpRd) string {
	var key [32]byte
	for i := range key {
		key[i] = byte(i*3 + 1)
	}
	obfs, err := mux.MakeObfuscator(mux.EncryptionMethodPlain, key)
	if err != nil {
		panic(err)
	}
	cfg := mux.SessionConfig{Obfuscator: obfs, MsgOnWireSizeLimit: appDataMaxLength, InactivityTimeout: time.Hour}
	clientSesh := mux.MakeSession(1, cfg)
	serverSesh := mux.MakeSession(1, cfg)
	c, s := connutil.AsyncPipe()
	clientSesh.AddConnection(common.NewTLSConn(c))
	serverSesh.AddConnection(common.NewTLSConn(s))
	defer serverSesh.Close()

	var mu sync.Mutex
	var up []byte
	accepted := false
	fenced := false
	endedBeforeFence := false
	late := false
	readerDone := make(chan struct{})
	acceptDone := make(chan struct{})
	go func() {
		defer close(acceptDone)
		first := true
		for {
			st, err := serverSesh.Accept()
			if err != nil {
				return
			}
			mu.Lock()
			accepted = true
			if fenced {
				late = true
			}
			mu.Unlock()
			if !first {
				continue
			}
			first = false
			go func() {
				defer close(readerDone)
				buf := make([]byte, 70000)
				for {
					n, err := st.Read(buf)
					mu.Lock()
					up = append(up, buf[:n]...)
					mu.Unlock()
					if err != nil {
						mu.Lock()
						if !fenced {
							endedBeforeFence = true
						}
						mu.Unlock()
						return
					}
				}
			}()
		}
	}()

	ln := &rlUpListener{ch: make(chan net.Conn, 1)}
	go RouteTCP(ln, time.Minute, false, func() *mux.Session { return clientSesh })
	local := &rlUpLocal{reads: reads, closedCh: make(chan struct{})}
	ln.ch <- local
	wedged := false
	select {
	case <-local.closedCh:
	case <-time.After(20 * time.Second):
		wedged = true
	}
	isAccepted := func() bool { mu.Lock(); defer mu.Unlock(); return accepted }
	// a stream that was opened has had its first frame sent before the local connection was closed
	deadline := time.Now().Add(300 * time.Millisecond)
	for !isAccepted() && time.Now().Before(deadline) {
		time.Sleep(200 * time.Microsecond)
	}
	if isAccepted() {
		select {
		case <-readerDone:
		case <-time.After(10 * time.Second):
		}
	}
	mu.Lock()
	fenced = true
	mu.Unlock()
	clientSesh.Close() // one connection: the session-closing notice arrives after every frame sent before it
	select {
	case <-acceptDone:
	case <-time.After(10 * time.Second):
	}
	if isAccepted() {
		select {
		case <-readerDone:
		case <-time.After(5 * time.Second):
		}
	}
	mu.Lock()
	defer mu.Unlock()
	closed := false
	select {
	case <-local.closedCh:
		closed = true
	default:
	}
	return fmt.Sprintf("up=%s accepted=%s ended=%s closed=%s late=%s wedged=%s", vfHex(up), vfB(accepted), vfB(endedBeforeFence), vfB(closed), vfB(late), vfB(wedged))
}

func TestVerifRelayUplink(t *testing.T) {
	sc, w, done := vfIO(t)
	defer done()
	for sc.Scan() {
		f := vfFields(sc.Text())
		if len(f) != 3 || f[1] != "U" {
			continue
		}
		var reads []rlUpRd
		if f[2] != "-" {
			for _, r := range strings.Split(f[2], ",") {
				i := strings.LastIndex(r, ":")
				reads = append(reads, rlUpRd{vfUnhex(r[:i]), r[i+1]})
			}
		}
		fmt.Fprintf(w, "%s %s\n", f[0], rlUpCase(reads))
		w.Flush()
	}
}
