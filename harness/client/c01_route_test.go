package client

// C01 relay driver: client.RouteTCP between harness-owned local connections (a fake net.Listener
// hands them out) and a REAL client-side Session whose peer is a REAL server-side Session over
// in-memory connections.  TWO local connections A and B; A's relay goroutine is parked at one of
// the calls it makes on the local connection (the harness owns that object):
//
//   position 1  SetReadDeadline(now+timeout)   before the first-packet read
//   position 2  Read                            the first-packet read itself (bytes not yet taken)
//   position 3  SetReadDeadline(zero)           after the first packet was read, before OpenStream / Stream.Write
//   position 4  Read                            the second read (after the first packet went out)
//
// while B is accepted, sends its first packet and has it delivered to the far end; then A is
// released and both connections exchange more data in both directions.
// Expected: every stream carries exactly the bytes of its own local connection (which stream belongs
// to which connection is learnt from a token the far end writes DOWN each accepted stream, not from
// the content), and every connection receives exactly what the far end wrote down its stream.
//
// input : <id> TCP <pos> <lenA> <lenB> <len2A> <len2B> [<GOMAXPROCS for this case>]
// output: <id> state=<D|N|T> A=<ok|BAD:..> B=<ok|BAD:..> downA=<ok|BAD..> downB=<..> streams=<n>
//   state: D = B's first packet reached the far end while A was parked; N = A never reached the
//   position; T = B made no progress while A was parked (time-out)

import (
	"bytes"
	"errors"
	"fmt"
	"io"
	"net"
	"runtime"
	"strconv"
	"strings"
	"sync"
	"testing"
	"time"

	"github.com/cbeuw/Cloak/internal/common"
	mux "github.com/cbeuw/Cloak/internal/multiplex"
	"github.com/cbeuw/connutil"
	log "github.com/sirupsen/logrus"
)

func c01RtPayload(n int, tag byte) []byte {
	b := make([]byte, n)
	for i := range b {
		b[i] = tag ^ byte(i*13+(i>>8)*7)
	}
	if n > 0 {
		b[0] = tag
	}
	return b
}

func c01RtPair(unordered bool) (client, server *mux.Session) {
	var key [32]byte
	for i := range key {
		key[i] = byte(i + 9)
	}
	obfs, err := mux.MakeObfuscator(mux.EncryptionMethodPlain, key)
	if err != nil {
		panic(err)
	}
	cfg := mux.SessionConfig{Obfuscator: obfs, Unordered: unordered, MsgOnWireSizeLimit: appDataMaxLength, InactivityTimeout: time.Hour}
	client = mux.MakeSession(1, cfg)
	server = mux.MakeSession(1, cfg)
	for i := 0; i < 2; i++ {
		c, s := connutil.AsyncPipe()
		client.AddConnection(common.NewTLSConn(c))
		server.AddConnection(common.NewTLSConn(s))
	}
	return
}

type c01RtAddr string

func (a c01RtAddr) Network() string { return "c01rt" }
func (a c01RtAddr) String() string  { return string(a) }

type c01RtListener struct{ ch chan net.Conn }

func (l *c01RtListener) Accept() (net.Conn, error) {
	c, ok := <-l.ch
	if !ok {
		select {} // RouteTCP treats an Accept error as fatal for the process: never return one
	}
	return c, nil
}
func (l *c01RtListener) Close() error   { return nil }
func (l *c01RtListener) Addr() net.Addr { return c01RtAddr("listener") }

// the local (proxy client side) connection, owned by the harness
type c01RtLocal struct {
	name    string
	mu      sync.Mutex
	cond    *sync.Cond
	in      []byte // fed by the driver, consumed by Read
	closed  bool
	down    []byte // what the relay wrote to us
	calls   int    // SetReadDeadline / Read calls so far, in program order
	parkAt  int    // park at this position (see above); 0 = never
	arrived chan struct{}
	release chan struct{}
	nReads  int
	nDl     int
}

func newC01RtLocal(name string, parkAt int) *c01RtLocal {
	l := &c01RtLocal{name: name, parkAt: parkAt, arrived: make(chan struct{}), release: make(chan struct{})}
	l.cond = sync.NewCond(&l.mu)
	return l
}

func (l *c01RtLocal) at(pos int) {
	l.mu.Lock()
	park := l.parkAt == pos
	if park {
		l.parkAt = 0
	}
	l.mu.Unlock()
	if park {
		close(l.arrived)
		<-l.release
	}
}

func (l *c01RtLocal) feed(b []byte) {
	l.mu.Lock()
	l.in = append(l.in, b...)
	l.cond.Broadcast()
	l.mu.Unlock()
}

func (l *c01RtLocal) Read(p []byte) (int, error) {
	l.mu.Lock()
	l.nReads++
	n := l.nReads
	l.mu.Unlock()
	if n == 1 {
		l.at(2)
	} else if n == 2 {
		l.at(4)
	}
	l.mu.Lock()
	defer l.mu.Unlock()
	for len(l.in) == 0 && !l.closed {
		l.cond.Wait()
	}
	if len(l.in) == 0 {
		return 0, io.EOF
	}
	k := copy(p, l.in)
	l.in = l.in[k:]
	return k, nil
}

func (l *c01RtLocal) Write(p []byte) (int, error) {
	l.mu.Lock()
	defer l.mu.Unlock()
	if l.closed {
		return 0, errors.New("closed")
	}
	l.down = append(l.down, p...)
	return len(p), nil
}

func (l *c01RtLocal) Close() error {
	l.mu.Lock()
	l.closed = true
	l.cond.Broadcast()
	l.mu.Unlock()
	return nil
}
func (l *c01RtLocal) SetReadDeadline(t time.Time) error {
	l.mu.Lock()
	l.nDl++
	n := l.nDl
	l.mu.Unlock()
	if n == 1 {
		l.at(1)
	} else if n == 2 {
		l.at(3)
	}
	return nil
}
func (l *c01RtLocal) SetDeadline(t time.Time) error      { return nil }
func (l *c01RtLocal) SetWriteDeadline(t time.Time) error { return nil }
func (l *c01RtLocal) LocalAddr() net.Addr                { return c01RtAddr(l.name) }
func (l *c01RtLocal) RemoteAddr() net.Addr               { return c01RtAddr(l.name + "-app") }
func (l *c01RtLocal) downLen() int {
	l.mu.Lock()
	defer l.mu.Unlock()
	return len(l.down)
}

// the far end: accepts streams, writes a token down each, collects what comes up
type c01RtFar struct {
	mu      sync.Mutex
	streams []*c01RtFarStream
}
type c01RtFarStream struct {
	st    net.Conn
	token []byte
	up    []byte
}

func (f *c01RtFar) serve(sesh *mux.Session) {
	for {
		st, err := sesh.Accept()
		if err != nil {
			return
		}
		f.mu.Lock()
		fs := &c01RtFarStream{st: st, token: []byte(fmt.Sprintf("<token-of-far-stream-%d>", len(f.streams)))}
		f.streams = append(f.streams, fs)
		f.mu.Unlock()
		go func() {
			buf := make([]byte, 70000)
			for {
				n, err := st.Read(buf)
				if n > 0 {
					f.mu.Lock()
					fs.up = append(fs.up, buf[:n]...)
					f.mu.Unlock()
				}
				if err != nil {
					return
				}
			}
		}()
		st.Write(fs.token)
	}
}

func (f *c01RtFar) total() (n, streams int) {
	f.mu.Lock()
	defer f.mu.Unlock()
	for _, s := range f.streams {
		n += len(s.up)
	}
	return n, len(f.streams)
}

// once one wait of a case has run out the rest of that case only gets a short grace (the case has
// failed anyway); c01RtPatience is reset at the start of every case
var c01RtPatience = true

func c01RtWait(cond func() bool, d time.Duration) bool {
	if !c01RtPatience {
		d = 200 * time.Millisecond
	}
	ok := c01RtWaitFor(cond, d)
	if !ok {
		c01RtPatience = false
	}
	return ok
}

func c01RtWaitFor(cond func() bool, d time.Duration) bool {
	deadline := time.Now().Add(d)
	for !cond() {
		if time.Now().After(deadline) {
			return false
		}
		time.Sleep(200 * time.Microsecond)
	}
	return true
}

func c01RtDescribe(got, want []byte, others map[string][]byte) string {
	if bytes.Equal(got, want) {
		return "ok"
	}
	why := fmt.Sprintf("BAD:%d-bytes-want-%d", len(got), len(want))
	for name, o := range others {
		k := len(got)
		if k > len(o) {
			k = len(o)
		}
		if k > 0 && bytes.Equal(got[:k], o[:k]) {
			why += fmt.Sprintf(":first-%d-bytes-are-those-of-%s", k, name)
		}
	}
	h := got
	if len(h) > 8 {
		h = h[:8]
	}
	return why + ":starts-" + vfHex(h)
}

func c01RtTCP(fs []string) string {
	atoi := func(s string) int { n, _ := strconv.Atoi(s); return n }
	pos, lenA, lenB, len2A, len2B := atoi(fs[2]), atoi(fs[3]), atoi(fs[4]), atoi(fs[5]), atoi(fs[6])
	if len(fs) > 7 && atoi(fs[7]) > 0 {
		// one P: whatever the parked goroutine left in per-P caches (sync.Pool) is what the next one finds
		defer runtime.GOMAXPROCS(runtime.GOMAXPROCS(atoi(fs[7])))
	}
	c01RtPatience = true
	clientSesh, serverSesh := c01RtPair(false)
	defer clientSesh.Close()
	defer serverSesh.Close()
	far := &c01RtFar{}
	go far.serve(serverSesh)
	ln := &c01RtListener{ch: make(chan net.Conn, 4)}
	go RouteTCP(ln, time.Minute, false, func() *mux.Session { return clientSesh })
	pA, pB := c01RtPayload(lenA, 'A'), c01RtPayload(lenB, 'B')
	qA, qB := c01RtPayload(len2A, 'a'), c01RtPayload(len2B, 'b')
	A, B := newC01RtLocal("A", pos), newC01RtLocal("B", 0)
	defer A.Close()
	defer B.Close()
	A.feed(pA)
	ln.ch <- A
	state := "N"
	parked := false
	if pos > 0 {
		select {
		case <-A.arrived:
			parked = true
		case <-time.After(2 * time.Second):
			// position not reached (the relay no longer makes that call): go on without the park;
			// a relay goroutine that gets there later must not be left parked
			A.mu.Lock()
			late := A.parkAt == 0
			A.parkAt = 0
			A.mu.Unlock()
			if late {
				<-A.arrived
				parked = true
			}
		}
	}
	before, _ := far.total()
	B.feed(pB)
	ln.ch <- B
	if parked {
		if c01RtWait(func() bool { n, _ := far.total(); return n >= before+lenB }, 20*time.Second) {
			state = "D"
		} else {
			state = "T"
		}
		close(A.release)
	}
	c01RtWait(func() bool { n, k := far.total(); return k >= 2 && n >= lenA+lenB }, 20*time.Second)
	A.feed(qA)
	B.feed(qB)
	c01RtWait(func() bool { n, _ := far.total(); return n >= lenA+lenB+len2A+len2B }, 20*time.Second)
	c01RtWait(func() bool { return A.downLen() > 0 && B.downLen() > 0 }, 20*time.Second)
	// second downstream message on each stream, after the mapping is known
	far.mu.Lock()
	streams := append([]*c01RtFarStream(nil), far.streams...)
	far.mu.Unlock()
	for i, s := range streams {
		s.st.Write([]byte(fmt.Sprintf("<more-for-far-stream-%d>", i)))
	}
	c01RtWait(func() bool { return A.downLen() >= 40 && B.downLen() >= 40 }, 20*time.Second)
	time.Sleep(2 * time.Millisecond)
	res := map[string]string{}
	wantUp := map[string][]byte{"A": append(append([]byte{}, pA...), qA...), "B": append(append([]byte{}, pB...), qB...)}
	far.mu.Lock()
	for _, l := range []*c01RtLocal{A, B} {
		l.mu.Lock()
		down := append([]byte(nil), l.down...)
		l.mu.Unlock()
		var mine *c01RtFarStream
		var idx int
		for i, s := range far.streams {
			if bytes.HasPrefix(down, s.token) {
				mine, idx = s, i
			}
		}
		if mine == nil {
			res[l.name] = "BAD:no-stream-token-received:" + vfHex(down)
			res["down"+l.name] = "BAD:none"
			continue
		}
		res[l.name] = c01RtDescribe(mine.up, wantUp[l.name], wantUp)
		wantDown := append(append([]byte{}, mine.token...), []byte(fmt.Sprintf("<more-for-far-stream-%d>", idx))...)
		if bytes.Equal(down, wantDown) {
			res["down"+l.name] = "ok"
		} else {
			res["down"+l.name] = "BAD:" + strings.ReplaceAll(string(down), " ", "_")
		}
	}
	n := len(far.streams)
	far.mu.Unlock()
	return fmt.Sprintf("%s state=%s A=%s B=%s downA=%s downB=%s streams=%d", fs[0], state, res["A"], res["B"], res["downA"], res["downB"], n)
}

func TestVerifC01Route(t *testing.T) {
	sc, w, done := vfIO(t)
	defer done()
	log.SetOutput(io.Discard)
	for sc.Scan() {
		fs := vfFields(sc.Text())
		if len(fs) < 7 || fs[1] != "TCP" {
			continue
		}
		w.WriteString(c01RtTCP(fs) + "\n")
	}
}
