package client

// C14 relay driver (stream isolation at client.RouteUDP): TWO local UDP applications (two source
// addresses, hence two streams) talk through one RouteUDP relay on a real loopback socket to a REAL
// unordered Session pair (helpers of c01_route_test.go).
//
//   up:    the two applications send datagrams of different sizes alternately; every far-end stream
//          must carry exactly the datagrams of its own application, each whole (compared as multisets:
//          an unordered session does not order datagrams across connections);
//   down:  the relay goroutine of application A's stream is parked right after its stream.Read has
//          returned an answer and before it forwards it (schedule point: the trace line Stream.Read
//          logs, caught with a logrus hook - RouteUDP works on a concrete *net.UDPConn, there is no
//          other seam on that path); meanwhile an answer for B arrives and is relayed completely;
//          then A is released.  Each application must receive exactly its own answer.
//
// Which far-end stream belongs to which application is learnt from a token datagram the far end
// sends DOWN each accepted stream, not from content.
//
// input : <id> UDP2 <lenAnsA> <lenAnsB> <n-up> <park 0|1>
// output: <id> state=<D|N|T> upA=<ok|BAD..> upB=<..> downA=<ok|BAD..> downB=<..> pairs=<n>

import (
	"bytes"
	"fmt"
	"io"
	"net"
	"sort"
	"strconv"
	"strings"
	"sync"
	"testing"
	"time"

	mux "github.com/cbeuw/Cloak/internal/multiplex"
	log "github.com/sirupsen/logrus"
)

type c14RtHook struct{ fn func(msg string) }

func (h *c14RtHook) Levels() []log.Level { return []log.Level{log.TraceLevel} }
func (h *c14RtHook) Fire(e *log.Entry) error {
	h.fn(e.Message)
	return nil
}

type c14RtFar struct {
	mu      sync.Mutex
	streams []*c14RtFarStream
}
type c14RtFarStream struct {
	st    net.Conn
	token []byte
	up    [][]byte
}

func (f *c14RtFar) serve(sesh *mux.Session) {
	for {
		st, err := sesh.Accept()
		if err != nil {
			return
		}
		f.mu.Lock()
		fs := &c14RtFarStream{st: st, token: []byte(fmt.Sprintf("<token-of-far-stream-%d>", len(f.streams)))}
		f.streams = append(f.streams, fs)
		f.mu.Unlock()
		go func() {
			buf := make([]byte, 70000)
			for {
				n, err := st.Read(buf)
				if err != nil {
					return
				}
				f.mu.Lock()
				fs.up = append(fs.up, append([]byte(nil), buf[:n]...))
				f.mu.Unlock()
			}
		}()
	}
}

func (f *c14RtFar) count() (streams, dgrams int) {
	f.mu.Lock()
	defer f.mu.Unlock()
	for _, s := range f.streams {
		dgrams += len(s.up)
	}
	return len(f.streams), dgrams
}

func c14RtMultisetEq(a, b [][]byte) bool {
	if len(a) != len(b) {
		return false
	}
	x := make([]string, len(a))
	y := make([]string, len(b))
	for i := range a {
		x[i], y[i] = string(a[i]), string(b[i])
	}
	sort.Strings(x)
	sort.Strings(y)
	for i := range x {
		if x[i] != y[i] {
			return false
		}
	}
	return true
}

func c14RtRecv(app *net.UDPConn, d time.Duration) []byte {
	if !c01RtPatience {
		d = 200 * time.Millisecond
	}
	buf := make([]byte, 70000)
	app.SetReadDeadline(time.Now().Add(d))
	n, err := app.Read(buf)
	if err != nil {
		c01RtPatience = false
		return nil
	}
	return buf[:n]
}

func c14RtDescribe(got, want []byte, other []byte) string {
	if bytes.Equal(got, want) {
		return "ok"
	}
	if got == nil {
		return "BAD:nothing-received"
	}
	why := fmt.Sprintf("BAD:%d-bytes-want-%d", len(got), len(want))
	k := len(got)
	if k > len(other) {
		k = len(other)
	}
	if k > 0 && bytes.Equal(got[:k], other[:k]) {
		why += fmt.Sprintf(":first-%d-bytes-are-the-other-application's-answer", k)
	}
	h := got
	if len(h) > 8 {
		h = h[:8]
	}
	return why + ":starts-" + vfHex(h)
}

func c14RtUDP2(fs []string) string {
	atoi := func(s string) int { n, _ := strconv.Atoi(s); return n }
	lenA, lenB, nup, park := atoi(fs[2]), atoi(fs[3]), atoi(fs[4]), atoi(fs[5]) == 1
	c01RtPatience = true
	clientSesh, serverSesh := c01RtPair(true)
	defer clientSesh.Close()
	defer serverSesh.Close()
	far := &c14RtFar{}
	go far.serve(serverSesh)
	bound := make(chan *net.UDPConn, 1)
	go RouteUDP(func() (*net.UDPConn, error) {
		l, err := net.ListenUDP("udp", &net.UDPAddr{IP: net.IPv4(127, 0, 0, 1)})
		bound <- l
		return l, err
	}, time.Minute, false, func() *mux.Session { return clientSesh })
	relay := <-bound
	if relay == nil {
		return fs[0] + " setup-failed:bind"
	}
	var apps [2]*net.UDPConn
	for i := range apps {
		a, err := net.DialUDP("udp", nil, relay.LocalAddr().(*net.UDPAddr))
		if err != nil {
			return fs[0] + " setup-failed:dial"
		}
		defer a.Close()
		apps[i] = a
	}
	// ---- up: alternate datagrams of different sizes
	var sent [2][][]byte
	for k := 0; k < nup; k++ {
		for i := 0; i < 2; i++ {
			d := c01RtPayload(1+(k*977+i*4001)%9000, byte('A'+i))
			d = append(d, byte(k), byte(k>>8), byte(i))
			sent[i] = append(sent[i], d)
			apps[i].Write(d)
		}
		if k == 0 {
			// the first datagram of each application opens its stream
			c01RtWait(func() bool { s, _ := far.count(); return s >= 2 }, 20*time.Second)
		}
	}
	c01RtWait(func() bool { _, n := far.count(); return n >= 2*nup }, 20*time.Second)
	// ---- mapping: a token down each far-end stream
	far.mu.Lock()
	streams := append([]*c14RtFarStream(nil), far.streams...)
	far.mu.Unlock()
	if len(streams) != 2 {
		return fmt.Sprintf("%s state=N upA=BAD:%d-streams upB=BAD downA=BAD downB=BAD pairs=0", fs[0], len(streams))
	}
	for _, s := range streams {
		s.st.Write(s.token)
	}
	var mine [2]*c14RtFarStream
	for i := range apps {
		tok := c14RtRecv(apps[i], 20*time.Second)
		for _, s := range streams {
			if bytes.Equal(tok, s.token) {
				mine[i] = s
			}
		}
	}
	if mine[0] == nil || mine[1] == nil || mine[0] == mine[1] {
		return fs[0] + " state=N upA=BAD:no-token upB=BAD:no-token downA=BAD downB=BAD pairs=0"
	}
	var up [2]string
	far.mu.Lock()
	for i := range apps {
		if c14RtMultisetEq(mine[i].up, sent[i]) {
			up[i] = "ok"
		} else {
			up[i] = fmt.Sprintf("BAD:%d-datagrams-want-%d", len(mine[i].up), len(sent[i]))
			for _, d := range mine[i].up {
				if len(d) > 0 && d[0] != byte('A'+i) {
					up[i] += ":carries-a-datagram-of-the-other-application"
					break
				}
			}
		}
	}
	far.mu.Unlock()
	// ---- down: A's relay goroutine parked between stream.Read and the forwarding
	ansA, ansB := c01RtPayload(lenA, 'x'), c01RtPayload(lenB, 'y')
	arrived, release := make(chan struct{}), make(chan struct{})
	var once sync.Once
	state := "N"
	if park {
		oldLevel, oldOut := log.GetLevel(), log.StandardLogger().Out
		log.SetOutput(io.Discard)
		log.SetLevel(log.TraceLevel)
		defer func() {
			log.StandardLogger().ReplaceHooks(make(log.LevelHooks))
			log.SetLevel(oldLevel)
			log.SetOutput(oldOut)
		}()
		prefix := strconv.Itoa(lenA) + " read from stream "
		log.AddHook(&c14RtHook{fn: func(msg string) {
			if strings.HasPrefix(msg, prefix) && strings.HasSuffix(msg, "<nil>") {
				first := false
				once.Do(func() { first = true })
				if first {
					close(arrived)
					<-release
				}
			}
		}})
	}
	mine[0].st.Write(ansA)
	parked := false
	if park {
		select {
		case <-arrived:
			parked = true
		case <-time.After(300 * time.Millisecond):
		}
	}
	mine[1].st.Write(ansB)
	gotB := c14RtRecv(apps[1], 20*time.Second)
	if parked {
		state = "D"
		if gotB == nil {
			state = "T"
		}
	}
	close(release) // a relay goroutine arriving late at the schedule point passes straight through
	gotA := c14RtRecv(apps[0], 20*time.Second)
	return fmt.Sprintf("%s state=%s upA=%s upB=%s downA=%s downB=%s pairs=%d", fs[0], state, up[0], up[1],
		c14RtDescribe(gotA, ansA, ansB), c14RtDescribe(gotB, ansB, ansA), nup)
}

func TestVerifC14Route(t *testing.T) {
	sc, w, done := vfIO(t)
	defer done()
	log.SetOutput(io.Discard)
	for sc.Scan() {
		fs := vfFields(sc.Text())
		if len(fs) < 6 || fs[1] != "UDP2" {
			continue
		}
		w.WriteString(c14RtUDP2(fs) + "\n")
	}
}
