package client

// C14 driver, part E (relay level): client.RouteUDP keeps one stream per local sender ADDRESS (IP and port).  Two
// senders that differ only in the IP, or only in the port, are two flows: each gets a stream of its own, the peer's
// replies on a stream go to that stream's sender and to nobody else ("never ... mixed with another stream's data").
//
// input : <id> FLOWS
// output: <id> sameport=<ok|skip|BAD:..> sameip=<ok|BAD:..>

import (
	"fmt"
	"net"
	"testing"
	"time"

	"github.com/cbeuw/Cloak/internal/common"
	mux "github.com/cbeuw/Cloak/internal/multiplex"
	"github.com/cbeuw/connutil"
)

func c14FlowPair(a, b *net.UDPConn, relay *net.UDPAddr, server *mux.Session) string {
	read := func(st net.Conn) string {
		buf := make([]byte, 2048)
		st.(*mux.Stream).SetReadDeadline(time.Now().Add(3 * time.Second))
		n, err := st.Read(buf)
		if err != nil {
			return "ERR:" + err.Error()
		}
		return string(buf[:n])
	}
	accept := func() net.Conn {
		ch := make(chan net.Conn, 1)
		go func() {
			st, err := server.Accept()
			if err == nil {
				ch <- st
			}
		}()
		select {
		case st := <-ch:
			return st
		case <-time.After(3 * time.Second):
			return nil
		}
	}
	recv := func(c *net.UDPConn) string {
		buf := make([]byte, 2048)
		c.SetReadDeadline(time.Now().Add(3 * time.Second))
		n, _, err := c.ReadFromUDP(buf)
		if err != nil {
			return "none"
		}
		return string(buf[:n])
	}
	if _, err := a.WriteToUDP([]byte("from-A-1"), relay); err != nil {
		return "BAD:sendA:" + err.Error()
	}
	sa := accept()
	if sa == nil {
		return "BAD:no-stream-for-A"
	}
	if got := read(sa); got != "from-A-1" {
		return "BAD:streamA-got-" + got
	}
	if _, err := b.WriteToUDP([]byte("from-B-1"), relay); err != nil {
		return "BAD:sendB:" + err.Error()
	}
	sb := accept()
	if sb == nil {
		// no stream of its own: where did B's datagram go?
		return "BAD:no-stream-of-its-own-for-B:streamA-then-carried-" + read(sa)
	}
	if got := read(sb); got != "from-B-1" {
		return "BAD:streamB-got-" + got
	}
	sa.Write([]byte("reply-to-A"))
	sb.Write([]byte("reply-to-B"))
	ra, rb := recv(a), recv(b)
	if ra != "reply-to-A" || rb != "reply-to-B" {
		return fmt.Sprintf("BAD:replies:A-got-%s:B-got-%s", ra, rb)
	}
	return "ok"
}

func c14FlowRig() (*net.UDPAddr, *mux.Session) {
	var key [32]byte
	obfs, _ := mux.MakeObfuscator(mux.EncryptionMethodPlain, key)
	cfg := mux.SessionConfig{Obfuscator: obfs, Unordered: true, MsgOnWireSizeLimit: appDataMaxLength, InactivityTimeout: time.Hour}
	clientSesh := mux.MakeSession(1, cfg)
	server := mux.MakeSession(1, cfg)
	c, s := connutil.AsyncPipe()
	clientSesh.AddConnection(common.NewTLSConn(c))
	server.AddConnection(common.NewTLSConn(s))
	bound := make(chan *net.UDPConn, 1)
	bind := func() (*net.UDPConn, error) {
		l, err := net.ListenUDP("udp", &net.UDPAddr{IP: net.IPv4zero})
		if err == nil {
			bound <- l
		}
		return l, err
	}
	go RouteUDP(bind, time.Minute, false, func() *mux.Session { return clientSesh })
	l := <-bound
	return &net.UDPAddr{IP: net.IPv4(127, 0, 0, 1), Port: l.LocalAddr().(*net.UDPAddr).Port}, server
}

func TestVerifC14Flows(t *testing.T) {
	sc, w, done := vfIO(t)
	defer done()
	for sc.Scan() {
		f := vfFields(sc.Text())
		if len(f) != 2 || f[1] != "FLOWS" {
			continue
		}
		// same port, different IP (the loopback net is a /8)
		samePort := "skip"
		relay, server := c14FlowRig()
		a, err := net.ListenUDP("udp", &net.UDPAddr{IP: net.IPv4(127, 0, 0, 1)})
		if err == nil {
			b, err2 := net.ListenUDP("udp", &net.UDPAddr{IP: net.IPv4(127, 0, 0, 2), Port: a.LocalAddr().(*net.UDPAddr).Port})
			if err2 == nil {
				samePort = c14FlowPair(a, b, relay, server)
				b.Close()
			}
			a.Close()
		}
		// same IP, different ports
		relay2, server2 := c14FlowRig()
		a2, _ := net.ListenUDP("udp", &net.UDPAddr{IP: net.IPv4(127, 0, 0, 1)})
		b2, _ := net.ListenUDP("udp", &net.UDPAddr{IP: net.IPv4(127, 0, 0, 1)})
		sameIP := c14FlowPair(a2, b2, relay2, server2)
		a2.Close()
		b2.Close()
		fmt.Fprintf(w, "%s sameport=%s sameip=%s\n", f[0], samePort, sameIP)
	}
}
