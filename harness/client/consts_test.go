package client

import (
	"fmt"
	"os"
	"testing"
)

func TestVerifConsts(t *testing.T) {
	out := os.Getenv("VERIF_OUT")
	if out == "" {
		t.Skip()
	}
	f, _ := os.Create(out)
	defer f.Close()
	p := func(n string, v interface{}) { fmt.Fprintf(f, "%s %d\n", n, v) }
	p("client_appDataMaxLength", appDataMaxLength)
	p("client_UNORDERED_FLAG", UNORDERED_FLAG)
	p("client_browser_chrome", chrome)
	p("client_browser_firefox", firefox)
	p("client_browser_safari", safari)
}
