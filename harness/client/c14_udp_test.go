package client

// C14 driver, part C (relay level, design finding F15): client.RouteUDP between a real loopback
// UDP socket and a real unordered Session pair (in-memory connections).  A datagram sent by the
// local application must come out of the peer's Stream.Read whole, and a datagram written by the
// peer must reach the application socket whole - as long as it fits one frame.
//
// input : <id> UDP <size> ...          (sizes of the datagrams to send, each on a fresh run)
// output: <id> max:<maxStreamUnitWrite> up:<size>:<got>:<identical 0|1>:<prefix 0|1> ... down:<size>:<got|none>:<identical> ...

import (
	"bytes"
	"fmt"
	"io"
	"net"
	"testing"
	"time"

	"github.com/cbeuw/Cloak/internal/common"
	mux "github.com/cbeuw/Cloak/internal/multiplex"
	"github.com/cbeuw/connutil"
	log "github.com/sirupsen/logrus"
)

func c14Payload(n, tag int) []byte {
	b := make([]byte, n)
	for i := range b {
		b[i] = byte(tag*131 + i*7 + (i>>8)*13 + 1)
	}
	return b
}

func c14UDPRig(t *testing.T) (app *net.UDPConn, server *mux.Session) {
	var key [32]byte
	obfs, err := mux.MakeObfuscator(mux.EncryptionMethodPlain, key)
	if err != nil {
		t.Fatal(err)
	}
	cfg := mux.SessionConfig{Obfuscator: obfs, Unordered: true, MsgOnWireSizeLimit: appDataMaxLength, InactivityTimeout: time.Hour}
	clientSesh := mux.MakeSession(1, cfg)
	server = mux.MakeSession(1, cfg)
	c, s := connutil.AsyncPipe()
	clientSesh.AddConnection(common.NewTLSConn(c))
	server.AddConnection(common.NewTLSConn(s))
	bound := make(chan *net.UDPConn, 1)
	bind := func() (*net.UDPConn, error) {
		l, err := net.ListenUDP("udp", &net.UDPAddr{IP: net.IPv4(127, 0, 0, 1)})
		if err == nil {
			bound <- l
		}
		return l, err
	}
	go RouteUDP(bind, time.Minute, false, func() *mux.Session { return clientSesh })
	l := <-bound
	app, err = net.DialUDP("udp", nil, l.LocalAddr().(*net.UDPAddr))
	if err != nil {
		t.Fatal(err)
	}
	return app, server
}

func TestVerifC14UDP(t *testing.T) {
	sc, w, done := vfIO(t)
	defer done()
	log.SetOutput(io.Discard)
	for sc.Scan() {
		fs := vfFields(sc.Text())
		if len(fs) < 3 || fs[1] != "UDP" {
			continue
		}
		w.WriteString(fs[0] + fmt.Sprintf(" max:%d", appDataMaxLength-14-255))
		for i, szs := range fs[2:] {
			var size int
			fmt.Sscanf(szs, "%d", &size)
			app, server := c14UDPRig(t)
			// uplink: application -> RouteUDP -> stream -> peer
			up := c14Payload(size, i+1)
			if _, err := app.Write(up); err != nil {
				w.WriteString(fmt.Sprintf(" up:%d:senderr:0:0", size))
				continue
			}
			type acc struct {
				st  net.Conn
				err error
			}
			ch := make(chan acc, 1)
			go func() { st, err := server.Accept(); ch <- acc{st, err} }()
			var st net.Conn
			select {
			case a := <-ch:
				st = a.st
			case <-time.After(3 * time.Second):
			}
			if st == nil {
				w.WriteString(fmt.Sprintf(" up:%d:none:0:0", size))
				continue
			}
			buf := make([]byte, 70000)
			st.SetReadDeadline(time.Now().Add(3 * time.Second))
			n, err := st.Read(buf)
			if err != nil {
				w.WriteString(fmt.Sprintf(" up:%d:err:0:0", size))
			} else {
				w.WriteString(fmt.Sprintf(" up:%d:%d:%s:%s", size, n, vfB(bytes.Equal(buf[:n], up)), vfB(n <= len(up) && bytes.Equal(buf[:n], up[:n]))))
			}
			// downlink: peer -> stream -> RouteUDP -> application socket
			down := c14Payload(size, i+101)
			if _, err := st.Write(down); err != nil {
				w.WriteString(fmt.Sprintf(" down:%d:writeerr:0", size))
				continue
			}
			app.SetReadDeadline(time.Now().Add(1500 * time.Millisecond))
			n, err = app.Read(buf)
			if err != nil {
				w.WriteString(fmt.Sprintf(" down:%d:none:0", size))
			} else {
				w.WriteString(fmt.Sprintf(" down:%d:%d:%s", size, n, vfB(bytes.Equal(buf[:n], down))))
			}
		}
		w.WriteString("\n")
	}
}
