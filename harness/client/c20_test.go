package client

// C20 driver: real ParseConfig (option-string path and JSON-file path) + ProcessRawConfig +
// ssvToJson on seeded configurations.
// input : <id> <ssv hex | -> <json hex | -> <typed raw for the model: ignored here>
// output: <id> J=<hex of ssvToJson(ssv) | -> S=<obs via the option string | -> F=<obs via the JSON file | ->
//   obs = err:parse | err:<class> | PANIC:<msg> |
//         ok:la=..,to=..,mock=..;sp=..,nc=..,ka=..,ra=..,tm=..,ws=..,br=..;uid=..,sid=..,pm=..,em=..,un=..,pk=..,md=..

import (
	"bufio"
	"encoding/hex"
	"fmt"
	"os"
	"path/filepath"
	"strings"
	"testing"

	"github.com/cbeuw/Cloak/internal/common"
	log "github.com/sirupsen/logrus"
)

func c20Unhex(s string) []byte {
	if s == "-" || s == "" {
		return []byte{}
	}
	b, err := hex.DecodeString(s)
	if err != nil {
		panic("bad hex " + s)
	}
	return b
}

func c20Hex(b []byte) string {
	if len(b) == 0 {
		return "-"
	}
	return hex.EncodeToString(b)
}

func c20Sanitize(s string) string {
	return strings.Map(func(r rune) rune {
		if r == ' ' || r == '\n' || r == '\t' {
			return '_'
		}
		return r
	}, s)
}

func c20ErrClass(err error) string {
	m := err.Error()
	switch {
	case strings.HasSuffix(m, " cannot be empty"):
		return "empty:" + strings.TrimSuffix(m, " cannot be empty")
	case m == "failed to unmarshal Public key":
		return "badpub"
	case strings.HasPrefix(m, "unknown encryption method"):
		return "unknownenc"
	}
	return "other?" + c20Sanitize(m)
}

func c20Process(raw *RawConfig) (obs string) {
	defer func() {
		if r := recover(); r != nil {
			obs = "PANIC:process:" + c20Sanitize(fmt.Sprint(r))
		}
	}()
	local, remote, auth, err := raw.ProcessRawConfig(common.RealWorldState)
	if err != nil {
		return "err:" + c20ErrClass(err)
	}
	mock := "none"
	if len(local.MockDomainList) > 0 {
		var ms []string
		for _, m := range local.MockDomainList {
			ms = append(ms, c20Hex([]byte(m)))
		}
		mock = strings.Join(ms, ",")
	}
	pk := "?"
	if p, ok := auth.ServerPubKey.(*[32]byte); ok && p != nil {
		pk = c20Hex(p[:])
	}
	b := func(x bool) string {
		if x {
			return "1"
		}
		return "0"
	}
	return fmt.Sprintf("ok:la=%s,to=%d,mock=%s;sp=%s,nc=%d,ka=%d,ra=%s,tm=%s,ws=%s,br=%d;uid=%s,sid=%d,pm=%s,em=%d,un=%s,pk=%s,md=%s",
		c20Hex([]byte(local.LocalAddr)), int64(local.Timeout), mock,
		b(remote.Singleplex), remote.NumConn, int64(remote.KeepAlive), c20Hex([]byte(remote.RemoteAddr)),
		c20Hex([]byte(remote.Transport.mode)), c20Hex([]byte(remote.Transport.wsUrl)), int(remote.Transport.browser),
		c20Hex(auth.UID), auth.SessionId, c20Hex([]byte(auth.ProxyMethod)), auth.EncryptionMethod, b(auth.Unordered), pk,
		c20Hex([]byte(auth.MockDomain)))
}

func c20Parse(conf string) (obs string) {
	defer func() {
		if r := recover(); r != nil {
			obs = "PANIC:parse:" + c20Sanitize(fmt.Sprint(r))
		}
	}()
	raw, err := ParseConfig(conf)
	if err != nil {
		return "err:parse"
	}
	return c20Process(raw)
}

func c20SsvToJson(ssv string) (out string) {
	defer func() {
		if r := recover(); r != nil {
			out = "PANIC:ssvToJson:" + c20Sanitize(fmt.Sprint(r))
		}
	}()
	return c20Hex(ssvToJson(ssv))
}

func TestVerifC20(t *testing.T) {
	in := os.Getenv("VERIF_IN")
	out := os.Getenv("VERIF_OUT")
	if in == "" || out == "" {
		t.Skip("VERIF_IN / VERIF_OUT not set")
	}
	fi, err := os.Open(in)
	if err != nil {
		t.Fatal(err)
	}
	defer fi.Close()
	fo, err := os.Create(out)
	if err != nil {
		t.Fatal(err)
	}
	defer fo.Close()
	sc := bufio.NewScanner(fi)
	sc.Buffer(make([]byte, 1<<20), 1<<28)
	w := bufio.NewWriterSize(fo, 1<<20)
	defer w.Flush()
	log.SetLevel(log.PanicLevel)
	dir := t.TempDir()
	cfgPath := filepath.Join(dir, "ckclient.json") // no ';' and no '=' in the path: ParseConfig reads it as a file
	if strings.Contains(cfgPath, ";") && strings.Contains(cfgPath, "=") {
		t.Fatal("temp dir name looks like an option string: " + cfgPath)
	}
	for sc.Scan() {
		fs := strings.Fields(sc.Text())
		if len(fs) < 3 {
			continue
		}
		j, s, f := "-", "-", "-"
		if fs[1] != "-" {
			ssv := string(c20Unhex(fs[1]))
			j = c20SsvToJson(ssv)
			s = c20Parse(ssv)
		}
		if fs[2] != "-" {
			if err := os.WriteFile(cfgPath, c20Unhex(fs[2]), 0600); err != nil {
				t.Fatal(err)
			}
			f = c20Parse(cfgPath)
		}
		fmt.Fprintf(w, "%s J=%s S=%s F=%s\n", fs[0], j, s, f)
	}
}
