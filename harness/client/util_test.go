package client

// Shared helpers of the /verif drivers for this package (injected with go test -overlay).

import (
	"bufio"
	"encoding/hex"
	"os"
	"strings"
	"testing"
)

func vfIO(t *testing.T) (*bufio.Scanner, *bufio.Writer, func()) {
	in := os.Getenv("VERIF_IN")
	out := os.Getenv("VERIF_OUT")
	if in == "" || out == "" {
		t.Skip("VERIF_IN / VERIF_OUT not set")
	}
	fi, err := os.Open(in)
	if err != nil {
		t.Fatal(err)
	}
	fo, err := os.Create(out)
	if err != nil {
		t.Fatal(err)
	}
	sc := bufio.NewScanner(fi)
	sc.Buffer(make([]byte, 1<<20), 1<<28)
	w := bufio.NewWriterSize(fo, 1<<20)
	return sc, w, func() { w.Flush(); fo.Close(); fi.Close() }
}

func vfHex(b []byte) string {
	if len(b) == 0 {
		return "-"
	}
	return hex.EncodeToString(b)
}

func vfUnhex(s string) []byte {
	if s == "-" {
		return []byte{}
	}
	b, err := hex.DecodeString(s)
	if err != nil {
		panic("bad hex " + s)
	}
	return b
}

func vfFields(s string) []string { return strings.Fields(s) }

func vfB(b bool) string {
	if b {
		return "1"
	}
	return "0"
}
