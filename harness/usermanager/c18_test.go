package usermanager

// C18 driver (store / API part): replays admin histories on the real
// APIRouterOf(MakeLocalManager(tempfile)) through httptest, plus direct calls of
// UploadStatus / AuthenticateUser / AuthoriseNewSession and close+reopen of the bolt file.
// Line format: see /verif/ocaml/c18_driver.ml (the pclass/bclass fields are for the model).

import (
	"bufio"
	"bytes"
	"encoding/base64"
	"encoding/hex"
	"encoding/json"
	"fmt"
	"io"
	"net/http"
	"net/http/httptest"
	"os"
	"path/filepath"
	"sort"
	"strconv"
	"strings"
	"testing"
	"time"

	"github.com/cbeuw/Cloak/internal/common"
	log "github.com/sirupsen/logrus"
)

func c18Unhex(s string) []byte {
	if s == "-" || s == "" {
		return []byte{}
	}
	b, err := hex.DecodeString(s)
	if err != nil {
		panic("bad hex " + s)
	}
	return b
}

func c18Hex(b []byte) string {
	if len(b) == 0 {
		return "-"
	}
	return hex.EncodeToString(b)
}

func c18Sanitize(s string) string {
	return strings.Map(func(r rune) rune {
		if r == ' ' || r == '\n' || r == '\t' {
			return '_'
		}
		return r
	}, s)
}

func c18Err(err error) string {
	switch err {
	case ErrUserNotFound:
		return "notfound"
	case ErrNoUpCredit:
		return "noup"
	case ErrNoDownCredit:
		return "nodown"
	case ErrUserExpired:
		return "expired"
	case ErrSessionsCapReached:
		return "cap"
	}
	return "other?" + c18Sanitize(err.Error())
}

func c18Msg(m string) string {
	switch m {
	case "User no longer exists":
		return "gone"
	case "No upload credit left":
		return "noup"
	case "No download credit left":
		return "nodown"
	case "User has expired":
		return "expired"
	}
	return "msg?" + c18Sanitize(m)
}

// one user object of a JSON answer, decoded without the package's own struct
func c18ShowUser(m map[string]interface{}) (uid string, vals string) {
	uid = "?"
	if s, ok := m["UID"].(string); ok {
		if b, err := base64.StdEncoding.DecodeString(s); err == nil {
			uid = c18Hex(b)
		}
	} else if m["UID"] == nil {
		uid = "-"
	}
	var vs []string
	for _, k := range []string{"SessionsCap", "UpRate", "DownRate", "UpCredit", "DownCredit", "ExpiryTime"} {
		switch v := m[k].(type) {
		case json.Number:
			vs = append(vs, v.String())
		case nil:
			vs = append(vs, "_")
		default:
			vs = append(vs, "?")
		}
	}
	return uid, strings.Join(vs, ",")
}

func c18HTTP(router http.Handler, method, path string, body []byte, kind byte) string {
	var rd io.Reader
	if body != nil {
		rd = bytes.NewReader(body)
	}
	req, err := http.NewRequest(method, path, rd)
	if err != nil {
		return "BADREQ"
	}
	rr := httptest.NewRecorder()
	router.ServeHTTP(rr, req)
	if rr.Code != 200 || (kind != 'G' && kind != 'L') {
		return "s" + strconv.Itoa(rr.Code)
	}
	dec := json.NewDecoder(bytes.NewReader(rr.Body.Bytes()))
	dec.UseNumber()
	if kind == 'G' {
		var m map[string]interface{}
		if err := dec.Decode(&m); err != nil {
			return "s200:badjson"
		}
		u, v := c18ShowUser(m)
		return "u:" + u + ":" + v
	}
	var l []map[string]interface{}
	if err := dec.Decode(&l); err != nil {
		return "s200:badjson"
	}
	var es []string
	for _, m := range l {
		u, v := c18ShowUser(m)
		es = append(es, u+"="+v)
	}
	sort.Strings(es)
	return "l:" + strings.Join(es, ";")
}

type c18DB struct {
	path   string
	world  common.WorldState
	mgr    *localManager
	router *APIRouter
}

func (d *c18DB) open() error {
	mgr, err := MakeLocalManager(d.path, d.world)
	if err != nil {
		return err
	}
	d.mgr = mgr
	d.router = APIRouterOf(mgr)
	return nil
}

func (d *c18DB) do(op string) string {
	p := strings.Split(op, "|")
	switch p[0] {
	case "L":
		return c18HTTP(d.router, "GET", "/admin/users", nil, 'L')
	case "G":
		return c18HTTP(d.router, "GET", "/admin/users/"+string(c18Unhex(p[1])), nil, 'G')
	case "P":
		return c18HTTP(d.router, "POST", "/admin/users/"+string(c18Unhex(p[1])), c18Unhex(p[3]), 'P')
	case "D":
		return c18HTTP(d.router, "DELETE", "/admin/users/"+string(c18Unhex(p[1])), nil, 'D')
	case "E":
		return c18HTTP(d.router, "GET", "/admin/users/", nil, 'E')
	case "R":
		if err := d.mgr.Close(); err != nil {
			return "r:ERR"
		}
		if err := d.open(); err != nil {
			return "r:ERR"
		}
		return "r"
	case "U":
		var ups []StatusUpdate
		if p[1] != "" {
			for _, e := range strings.Split(p[1], ";") {
				f := strings.Split(e, ",")
				up, _ := strconv.ParseInt(f[1], 10, 64)
				down, _ := strconv.ParseInt(f[2], 10, 64)
				ups = append(ups, StatusUpdate{UID: c18Unhex(f[0]), Active: true, NumSession: 1, UpUsage: up, DownUsage: down, Timestamp: 0})
			}
		}
		resps, err := d.mgr.UploadStatus(ups)
		if err != nil {
			return "p:ERR"
		}
		var es []string
		for _, r := range resps {
			m := c18Msg(r.Message)
			if r.Action != TERMINATE {
				m = "action?" + m
			}
			es = append(es, c18Hex(r.UID)+"="+m)
		}
		return "p:" + strings.Join(es, ";")
	case "A":
		up, down, err := d.mgr.AuthenticateUser(c18Unhex(p[1]))
		if err != nil {
			return "a:" + c18Err(err)
		}
		return fmt.Sprintf("a:ok:%d:%d", up, down)
	case "S":
		n, _ := strconv.Atoi(p[2])
		err := d.mgr.AuthoriseNewSession(c18Unhex(p[1]), AuthorisationInfo{NumExistingSessions: n})
		if err != nil {
			return "n:" + c18Err(err)
		}
		return "n:ok"
	}
	return "BADOP"
}

func TestVerifC18(t *testing.T) {
	in := os.Getenv("VERIF_IN")
	out := os.Getenv("VERIF_OUT")
	if in == "" || out == "" {
		t.Skip("VERIF_IN / VERIF_OUT not set")
	}
	fi, err := os.Open(in)
	if err != nil {
		t.Fatal(err)
	}
	defer fi.Close()
	fo, err := os.Create(out)
	if err != nil {
		t.Fatal(err)
	}
	defer fo.Close()
	sc := bufio.NewScanner(fi)
	sc.Buffer(make([]byte, 1<<20), 1<<28)
	w := bufio.NewWriterSize(fo, 1<<20)
	defer w.Flush()
	log.SetOutput(io.Discard)
	dir := t.TempDir()
	n := 0
	for sc.Scan() {
		fs := strings.Fields(sc.Text())
		if len(fs) < 2 {
			continue
		}
		n++
		now, _ := strconv.ParseInt(fs[1], 10, 64)
		d := &c18DB{path: filepath.Join(dir, fmt.Sprintf("db%d", n)), world: common.WorldOfTime(time.Unix(now, 0))}
		if err := d.open(); err != nil {
			t.Fatal(err)
		}
		w.WriteString(fs[0])
		for _, op := range fs[2:] {
			var obs string
			stop := false
			func() {
				defer func() {
					if r := recover(); r != nil {
						obs = "PANIC:" + c18Sanitize(fmt.Sprint(r))
						stop = true
					}
				}()
				obs = d.do(op)
			}()
			w.WriteString(" " + obs)
			if stop {
				break
			}
		}
		w.WriteString("\n")
		d.mgr.Close()
		os.Remove(d.path)
	}
}
