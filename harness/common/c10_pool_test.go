package common

// C10 pool driver: N goroutines x M writes through ONE TLSConn; EVERY buffer handed to the underlying
// connection must be exactly one well-formed application-data record (type 23, version 3.3,
// 0 < length <= 2^14+256, length field == number of bytes that follow) whose body is the message the
// calling writer passed, each writer's messages in its own order.
//
// TLSConn.Write builds the record in a buffer from a sync.Pool.  There is no seam between "buffer
// returned to the pool" and "buffer reset" that a harness could hold a goroutine in, so the window
// "another writer obtains the buffer while the previous one still touches it" cannot be scheduled
// deterministically.  Two complementary runs instead:
//
//   mode hb     (run under -race): sync.Pool is annotated for the race detector (Put = release,
//               Get = acquire on the pooled object), and the detector is a happens-before checker, not
//               a timing one: if a writer touches the buffer AFTER its Put, any later Get of that
//               buffer by another goroutine is reported as a data race whatever the timing.  The driver
//               makes buffers migrate between goroutines on purpose (GOMAXPROCS(1): the per-P private
//               slot hands the buffer of the writer that just yielded to the next one) and uses an
//               underlying connection without any synchronisation of its own, so that the pool is the
//               only happens-before edge between writers.  Deterministic: every migration is a witness.
//   mode stress (no race detector): the plain statistical search for an actually malformed buffer,
//               GOMAXPROCS varied, with forced preemption (GC cycles) to widen the window; reports how
//               many buffer migrations (racing pairs: Put by one goroutine, next Get by another) ran.
//
// env: VERIF_C10_MODE=hb|stress  VERIF_C10_WRITERS  VERIF_C10_WRITES  VERIF_C10_MS (stress: budget per GOMAXPROCS value)
//      VERIF_C10_PROCS=1,4,16
// output: <mode>-p<procs> writes=<n> bad=<n> migrations=<n> first=<description|->

import (
	"fmt"
	"net"
	"os"
	"runtime"
	"strconv"
	"strings"
	"sync"
	"sync/atomic"
	"testing"
	"time"
	"unsafe"
)

const c10PoolMaxWriters = 256

type c10PoolSlot struct {
	next  uint32 // next message number expected from this writer
	bad   int
	first string
	migr  int
	bufs  map[uintptr]int // hb mode: record buffers this writer was handed (by address)
	prev  uintptr
	moved int      // writes for which the writer got another buffer than for its previous write
	_     [64]byte // keep the writers' slots on different cache lines
}

type c10PoolWire struct {
	net.Conn
	slots  [c10PoolMaxWriters]c10PoolSlot
	track  bool
	last   [4096]atomic.Int32
	nbad   atomic.Int64
	payLen int
}

// no lock, no atomic on the hb path: each writer only touches its own slot (the writer is named by
// the first body byte; a record that names nobody is charged to slot 0 with the pool's own ordering)
func (w *c10PoolWire) Write(b []byte) (int, error) {
	why := ""
	switch {
	case len(b) < 6:
		why = "shorter than a record header plus one byte"
	case b[0] != ApplicationData || b[1] != 3 || b[2] != 3:
		why = "not type 23 version 3.3"
	case int(b[3])<<8|int(b[4]) != len(b)-5:
		why = fmt.Sprintf("length field %d but %d bytes follow", int(b[3])<<8|int(b[4]), len(b)-5)
	case len(b)-5 > 1<<14+256:
		why = "longer than 2^14+256"
	}
	id := 0
	if why == "" {
		id = int(b[5])
		s := &w.slots[id]
		if len(b)-5 != w.payLen+int(b[5])%3 {
			why = "body is not the message its writer passed (length)"
		} else if len(b) >= 10 {
			seq := uint32(b[6]) | uint32(b[7])<<8 | uint32(b[8])<<16 | uint32(b[9])<<24
			if seq != s.next {
				why = fmt.Sprintf("writer %d: message %d on the wire when %d was due", id, seq, s.next)
			}
			s.next = seq + 1
		}
	}
	if why != "" {
		s := &w.slots[id]
		s.bad++
		if s.first == "" {
			h := b
			if len(h) > 12 {
				h = h[:12]
			}
			s.first = fmt.Sprintf("a write of %d bytes is not one well-formed record of its writer: %s; it starts with [% x]", len(b), why, h)
		}
		if w.track {
			w.nbad.Add(1)
		}
	}
	if !w.track && len(b) > 5 && why == "" {
		// hb mode: no shared state at all - each writer notes the buffers it was handed
		s := &w.slots[id]
		p := uintptr(unsafe.Pointer(&b[0]))
		if s.bufs == nil {
			s.bufs = map[uintptr]int{}
		}
		s.bufs[p]++
		if p != s.prev {
			s.moved++
		}
		s.prev = p
	}
	if w.track && len(b) > 5 {
		// the record buffer's identity: TLSConn hands us the pooled slice itself
		p := uintptr(unsafe.Pointer(&b[0]))
		cell := &w.last[(p>>6)&4095]
		me := int32(b[5]) + 1
		if prev := cell.Swap(me); prev != 0 && prev != me {
			w.slots[id].migr++
		}
	}
	return len(b), nil
}

func c10PoolEnvInt(k string, def int) int {
	if v := os.Getenv(k); v != "" {
		if n, err := strconv.Atoi(v); err == nil {
			return n
		}
	}
	return def
}

func c10PoolRun(mode string, procs, writers, writes int, budget time.Duration) string {
	old := runtime.GOMAXPROCS(procs)
	defer runtime.GOMAXPROCS(old)
	wire := &c10PoolWire{track: mode == "stress", payLen: 5}
	conn := NewTLSConn(wire)
	var wg sync.WaitGroup
	start := make(chan struct{})
	var stop atomic.Bool
	yield := c10PoolEnvInt("VERIF_C10_YIELD", 0)
	gc := c10PoolEnvInt("VERIF_C10_GC", 1)
	t0 := time.Now()
	totals := make([]int, writers)
	for g := 0; g < writers; g++ {
		wg.Add(1)
		go func(g int) {
			defer wg.Done()
			data := make([]byte, 5+g%3)
			data[0] = byte(g)
			<-start
			for i := 0; i < writes || writes == 0; i++ {
				data[1], data[2], data[3], data[4] = byte(i), byte(i>>8), byte(i>>16), byte(i>>24)
				if _, err := conn.Write(data); err != nil {
					return
				}
				totals[g]++
				if mode == "hb" {
					// hand the P (and with it the pool's private slot) to the next writer
					runtime.Gosched()
				} else {
					if yield > 0 && i%yield == 0 {
						runtime.Gosched()
					}
					if i&255 == 0 && (stop.Load() || wire.nbad.Load() != 0) {
						return
					}
				}
			}
		}(g)
	}
	var aux sync.WaitGroup
	if mode == "stress" {
		// forced preemption: every GC cycle stops all running goroutines at an arbitrary instruction
		aux.Add(1)
		go func() {
			defer aux.Done()
			for !stop.Load() && gc > 0 {
				runtime.GC()
				time.Sleep(200 * time.Microsecond)
			}
		}()
		aux.Add(1)
		go func() {
			defer aux.Done()
			t := time.NewTimer(budget)
			defer t.Stop()
			<-t.C
			stop.Store(true)
		}()
	}
	close(start)
	wg.Wait()
	stop.Store(true)
	total, bad, migr := 0, 0, 0
	first := "-"
	for g := 0; g < writers; g++ {
		total += totals[g]
	}
	for i := range wire.slots {
		bad += wire.slots[i].bad
		migr += wire.slots[i].migr
		if first == "-" && wire.slots[i].first != "" {
			first = strings.ReplaceAll(wire.slots[i].first, " ", "_")
		}
	}
	if mode == "hb" {
		// buffers that passed through the hands of more than one writer, and how many writes
		// started with a buffer other than the writer's previous one
		users := map[uintptr]int{}
		for i := range wire.slots {
			for p := range wire.slots[i].bufs {
				users[p]++
			}
			migr += wire.slots[i].moved
		}
		shared := 0
		for _, n := range users {
			if n > 1 {
				shared++
			}
		}
		return fmt.Sprintf("%s-p%d writes=%d bad=%d migrations=%d shared-buffers=%d first=%s", mode, procs, total, bad, migr, shared, first)
	}
	return fmt.Sprintf("%s-p%d writes=%d bad=%d migrations=%d ms=%d first=%s", mode, procs, total, bad, migr, time.Since(t0).Milliseconds(), first)
}

func TestVerifC10Pool(t *testing.T) {
	out := os.Getenv("VERIF_OUT")
	if out == "" {
		t.Skip()
	}
	fo, _ := os.Create(out)
	defer fo.Close()
	mode := os.Getenv("VERIF_C10_MODE")
	if mode == "" {
		mode = "hb"
	}
	var procs []int
	for _, s := range strings.Split(os.Getenv("VERIF_C10_PROCS"), ",") {
		if n, err := strconv.Atoi(s); err == nil && n > 0 {
			procs = append(procs, n)
		}
	}
	if len(procs) == 0 {
		procs = []int{1}
	}
	for _, p := range procs {
		writers := c10PoolEnvInt("VERIF_C10_WRITERS", 4)
		if mode == "stress" && writers < 4*p {
			writers = 4 * p
		}
		if writers > c10PoolMaxWriters {
			writers = c10PoolMaxWriters
		}
		writes := c10PoolEnvInt("VERIF_C10_WRITES", 200)
		if mode == "stress" {
			writes = 0
		}
		fmt.Fprintln(fo, c10PoolRun(mode, p, writers, writes, time.Duration(c10PoolEnvInt("VERIF_C10_MS", 2000))*time.Millisecond))
	}
}
