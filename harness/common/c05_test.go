package common

// C05 driver: the real TLSConn (Read/Write) over a recording writer conn and a segmenting reader
// conn that hands the reader exactly the chunks the scenario dictates; concurrent writers through
// one TLSConn; the real WebSocketConn over a gorilla client/server pair on a segmenting duplex conn.
//
//   payload(len,tag): byte i = (tag*37 + i*11 + (i>>8)*5 + 7) mod 256
//   repr(bytes) = "-" | hex (<= 32 bytes) | <len>.<md5 hex>
// input lines:
//   <id> X <buflen> <trunc|-1> <cuts a,b,..|-> <len>:<tag> ...
//   <id> R <buflen> <cuts|-> <wire hex>
//   <id> C <queue> ...                  queue = len:tag,len:tag,.. | -   (one goroutine per queue)
//   <id> S <buflen> <segs a,b,..> <trunc|-1> <dir 0|1> <len>:<tag> ...
// output lines: see the model driver ocaml/c05_driver.ml; C prints
//   <id> sched:<a,b,..|-> wire:<repr> parse:ok:<n> | parse:bad:<reason>
// and S prints one of ok:<repr> | nm:<n> | err:<n> per message (stops at err).

import (
	"bytes"
	"crypto/md5"
	"encoding/hex"
	"errors"
	"fmt"
	"io"
	"net"
	"net/http"
	"net/url"
	"runtime"
	"strconv"
	"strings"
	"sync"
	"testing"
	"time"

	"github.com/gorilla/websocket"
)

func c05Payload(n, tag int) []byte {
	b := make([]byte, n)
	for i := range b {
		b[i] = byte((tag*37 + i*11 + (i>>8)*5 + 7) % 256)
	}
	return b
}

func c05Repr(b []byte) string {
	if len(b) == 0 {
		return "-"
	}
	if len(b) <= 32 {
		return hex.EncodeToString(b)
	}
	s := md5.Sum(b)
	return strconv.Itoa(len(b)) + "." + hex.EncodeToString(s[:])
}

func c05Msg(s string) []byte {
	p := strings.Split(s, ":")
	n, _ := strconv.Atoi(p[0])
	tag, _ := strconv.Atoi(p[1])
	return c05Payload(n, tag)
}

func c05Ints(s string) []int {
	if s == "-" {
		return nil
	}
	var out []int
	for _, x := range strings.Split(s, ",") {
		v, _ := strconv.Atoi(x)
		out = append(out, v)
	}
	return out
}

type c05Addr struct{}

func (c05Addr) Network() string { return "c05" }
func (c05Addr) String() string  { return "c05" }

// writer side: records every underlying Write call as one entry (appended atomically)
type c05Rec struct {
	mu     sync.Mutex
	writes [][]byte
	yield  bool
}

func (r *c05Rec) Write(b []byte) (int, error) {
	if r.yield {
		runtime.Gosched()
	}
	r.mu.Lock()
	r.writes = append(r.writes, append([]byte(nil), b...))
	r.mu.Unlock()
	return len(b), nil
}
func (r *c05Rec) Read(b []byte) (int, error)         { return 0, io.EOF }
func (r *c05Rec) Close() error                       { return nil }
func (r *c05Rec) LocalAddr() net.Addr                { return c05Addr{} }
func (r *c05Rec) RemoteAddr() net.Addr               { return c05Addr{} }
func (r *c05Rec) SetDeadline(t time.Time) error      { return nil }
func (r *c05Rec) SetReadDeadline(t time.Time) error  { return nil }
func (r *c05Rec) SetWriteDeadline(t time.Time) error { return nil }

// reader side: every Read returns (a prefix of) the head chunk; io.EOF after the last chunk
type c05Seg struct {
	c05Rec
	chunks [][]byte
}

func (s *c05Seg) Read(p []byte) (int, error) {
	if len(p) == 0 { // like a TCP connection: a zero-length read returns at once
		return 0, nil
	}
	for len(s.chunks) > 0 && len(s.chunks[0]) == 0 {
		s.chunks = s.chunks[1:]
	}
	if len(s.chunks) == 0 {
		return 0, io.EOF
	}
	n := copy(p, s.chunks[0])
	if n < len(s.chunks[0]) {
		s.chunks[0] = s.chunks[0][n:]
	} else {
		s.chunks = s.chunks[1:]
	}
	return n, nil
}

func c05Cut(wire []byte, cuts []int) [][]byte {
	var out [][]byte
	pos := 0
	for _, c := range cuts {
		if c <= pos {
			continue
		}
		if c-pos >= len(wire) { // cuts at or beyond the end are ignored (the generator does not produce them)
			break
		}
		out = append(out, wire[:c-pos])
		wire = wire[c-pos:]
		pos = c
	}
	return append(out, wire)
}

func c05Reads(w interface{ WriteString(string) (int, error) }, chunks [][]byte, buflen, fuel int) {
	seg := &c05Seg{chunks: chunks}
	reader := NewTLSConn(seg)
	buf := make([]byte, buflen)
	for i := 0; i < fuel; i++ {
		for j := range buf {
			buf[j] = 0xA5
		}
		n, err := reader.Read(buf)
		switch {
		case err == nil:
			w.WriteString(" d:" + c05Repr(buf[:n]))
			continue
		case err == io.ErrShortBuffer && n == 0:
			w.WriteString(" eS")
		case err == io.EOF && n == 0:
			w.WriteString(" eE")
		case err == io.ErrUnexpectedEOF:
			w.WriteString(" eU:" + strconv.Itoa(n))
		default:
			w.WriteString(" e?" + strconv.Itoa(n))
		}
		break
	}
}

func c05X(fs []string, w interface{ WriteString(string) (int, error) }) {
	buflen, _ := strconv.Atoi(fs[2])
	trunc, _ := strconv.Atoi(fs[3])
	cuts := c05Ints(fs[4])
	rec := &c05Rec{}
	writer := NewTLSConn(rec)
	w.WriteString(fs[0])
	for _, ms := range fs[5:] {
		m := c05Msg(ms)
		before := len(rec.writes)
		n, err := writer.Write(m)
		nw := len(rec.writes) - before
		if err != nil {
			w.WriteString(fmt.Sprintf(" W%d:1:%d", n, nw))
		} else {
			w.WriteString(fmt.Sprintf(" W%d:0:%d", n, nw))
		}
		for i := range m { // the caller may reuse its buffer
			m[i] = 0xEE
		}
	}
	wire := bytes.Join(rec.writes, nil)
	w.WriteString(" wire:" + c05Repr(wire))
	if trunc >= 0 && trunc < len(wire) {
		wire = wire[:trunc]
	}
	c05Reads(w, c05Cut(wire, cuts), buflen, len(fs[5:])+3)
	w.WriteString("\n")
}

func c05R(fs []string, w interface{ WriteString(string) (int, error) }) {
	buflen, _ := strconv.Atoi(fs[2])
	cuts := c05Ints(fs[3])
	wire := vfUnhex(fs[4])
	w.WriteString(fs[0])
	c05Reads(w, c05Cut(wire, cuts), buflen, 12)
	w.WriteString("\n")
}

// concurrent writers through ONE TLSConn
func c05C(fs []string, w interface{ WriteString(string) (int, error) }) {
	var queues [][][]byte
	owner := map[string][2]int{}
	total := 0
	for wi, q := range fs[2:] {
		var ms [][]byte
		if q != "-" {
			for i, s := range strings.Split(q, ",") {
				m := c05Msg(s)
				ms = append(ms, m)
				owner[string(m)] = [2]int{wi, i}
				total++
			}
		}
		queues = append(queues, ms)
	}
	rec := &c05Rec{yield: true}
	conn := NewTLSConn(rec)
	start := make(chan struct{})
	var wg sync.WaitGroup
	var emu sync.Mutex
	var werrs []string
	for wi := range queues {
		wg.Add(1)
		go func(wi int) {
			defer wg.Done()
			<-start
			for _, m := range queues[wi] {
				n, err := conn.Write(m)
				if err != nil || n != len(m) {
					emu.Lock()
					werrs = append(werrs, fmt.Sprintf("writer%d:n=%d:err=%v", wi, n, err))
					emu.Unlock()
				}
			}
		}(wi)
	}
	close(start)
	wg.Wait()
	wire := bytes.Join(rec.writes, nil)
	// the wire oracle: the byte stream must parse into whole records, each one a message of some
	// writer, each writer's messages in its own order
	next := make([]int, len(queues))
	var sched []string
	pos, n := 0, 0
	bad := ""
	for pos < len(wire) && bad == "" {
		if len(wire)-pos < 5 {
			bad = fmt.Sprintf("truncated-header-at-%d", pos)
			break
		}
		h := wire[pos : pos+5]
		if h[0] != ApplicationData || h[1] != 3 || h[2] != 3 {
			bad = fmt.Sprintf("bad-header-at-%d:%s", pos, hex.EncodeToString(h))
			break
		}
		l := int(h[3])<<8 | int(h[4])
		if pos+5+l > len(wire) {
			bad = fmt.Sprintf("record-at-%d-overruns-stream", pos)
			break
		}
		body := wire[pos+5 : pos+5+l]
		o, ok := owner[string(body)]
		if !ok {
			bad = fmt.Sprintf("record-at-%d-len-%d-is-no-message-of-any-writer:%s", pos, l, c05Repr(body))
			break
		}
		if o[1] != next[o[0]] {
			bad = fmt.Sprintf("writer-%d-message-%d-arrived-when-%d-was-due", o[0], o[1], next[o[0]])
			break
		}
		next[o[0]]++
		sched = append(sched, strconv.Itoa(o[0]))
		pos += 5 + l
		n++
	}
	if bad == "" && n != total {
		bad = fmt.Sprintf("%d-records-for-%d-messages", n, total)
	}
	if bad == "" && len(werrs) > 0 {
		bad = "write-errors:" + strings.Join(werrs, ";")
	}
	// every underlying Write must have been one whole record
	nw := len(rec.writes)
	sc := "-"
	if len(sched) > 0 {
		sc = strings.Join(sched, ",")
	}
	w.WriteString(fmt.Sprintf("%s sched:%s wire:%s writes:%d ", fs[0], sc, c05Repr(wire), nw))
	if bad == "" {
		w.WriteString(fmt.Sprintf("parse:ok:%d\n", n))
	} else {
		w.WriteString("parse:bad:" + strings.ReplaceAll(bad, " ", "_") + "\n")
	}
}

// ---- WebSocket ---------------------------------------------------------------------------
// one direction of an in-memory duplex connection: unbounded queue, segmented reads
type c05Half struct {
	mu      sync.Mutex
	cond    *sync.Cond
	buf     []byte
	closed  bool
	segs    []int
	segIdx  int
	written int
	read    int
	limit   int // reader sees EOF after this many bytes; -1 = none
	rdl     time.Time
}

type c05Timeout struct{}

func (c05Timeout) Error() string   { return "c05: i/o timeout" }
func (c05Timeout) Timeout() bool   { return true }
func (c05Timeout) Temporary() bool { return true }

// net/http's Hijack aborts its background read with a read deadline in the past: only deadlines
// that have already expired are honoured (nothing in these scenarios sets a future one)
func (h *c05Half) setReadDeadline(t time.Time) {
	h.mu.Lock()
	h.rdl = t
	h.cond.Broadcast()
	h.mu.Unlock()
}

func newC05Half(segs []int) *c05Half {
	h := &c05Half{segs: segs, limit: -1}
	h.cond = sync.NewCond(&h.mu)
	return h
}

func (h *c05Half) write(b []byte) (int, error) {
	h.mu.Lock()
	defer h.mu.Unlock()
	if h.closed {
		return 0, io.ErrClosedPipe
	}
	h.buf = append(h.buf, b...)
	h.written += len(b)
	h.cond.Broadcast()
	return len(b), nil
}

func (h *c05Half) readInto(p []byte) (int, error) {
	h.mu.Lock()
	defer h.mu.Unlock()
	for {
		if !h.rdl.IsZero() && !time.Now().Before(h.rdl) {
			return 0, c05Timeout{}
		}
		if h.limit >= 0 && h.read >= h.limit {
			return 0, io.EOF
		}
		if len(h.buf) > 0 {
			break
		}
		if h.closed {
			return 0, io.EOF
		}
		h.cond.Wait()
	}
	n := len(p)
	if n > len(h.buf) {
		n = len(h.buf)
	}
	if len(h.segs) > 0 {
		s := h.segs[h.segIdx%len(h.segs)]
		h.segIdx++
		if s > 0 && n > s {
			n = s
		}
	}
	if h.limit >= 0 && n > h.limit-h.read {
		n = h.limit - h.read
	}
	copy(p, h.buf[:n])
	h.buf = h.buf[n:]
	h.read += n
	return n, nil
}

func (h *c05Half) close() {
	h.mu.Lock()
	h.closed = true
	h.cond.Broadcast()
	h.mu.Unlock()
}

type c05Duplex struct {
	in, out *c05Half
}

func (d *c05Duplex) Read(p []byte) (int, error)         { return d.in.readInto(p) }
func (d *c05Duplex) Write(p []byte) (int, error)        { return d.out.write(p) }
func (d *c05Duplex) Close() error                       { d.in.close(); d.out.close(); return nil }
func (d *c05Duplex) LocalAddr() net.Addr                { return c05Addr{} }
func (d *c05Duplex) RemoteAddr() net.Addr               { return c05Addr{} }
func (d *c05Duplex) SetDeadline(t time.Time) error      { d.in.setReadDeadline(t); return nil }
func (d *c05Duplex) SetReadDeadline(t time.Time) error  { d.in.setReadDeadline(t); return nil }
func (d *c05Duplex) SetWriteDeadline(t time.Time) error { return nil }

type c05OnceListener struct {
	c    net.Conn
	done bool
	mu   sync.Mutex
	stop chan struct{}
}

func (l *c05OnceListener) Accept() (net.Conn, error) {
	l.mu.Lock()
	if !l.done {
		l.done = true
		l.mu.Unlock()
		return l.c, nil
	}
	l.mu.Unlock()
	<-l.stop
	return nil, errors.New("closed")
}
func (l *c05OnceListener) Close() error   { return nil }
func (l *c05OnceListener) Addr() net.Addr { return c05Addr{} }

type c05Handler struct{ got chan *websocket.Conn }

func (h *c05Handler) ServeHTTP(w http.ResponseWriter, r *http.Request) {
	up := websocket.Upgrader{ReadBufferSize: 16480, WriteBufferSize: 16480}
	c, err := up.Upgrade(w, r, nil)
	if err != nil {
		h.got <- nil
		return
	}
	h.got <- c
}

func c05WsPair(segs []int) (client, server *WebSocketConn, c2s, s2c *c05Half, err error) {
	c2s, s2c = newC05Half(segs), newC05Half(segs)
	cc := &c05Duplex{in: s2c, out: c2s}
	sc := &c05Duplex{in: c2s, out: s2c}
	h := &c05Handler{got: make(chan *websocket.Conn, 1)}
	l := &c05OnceListener{c: sc, stop: make(chan struct{})}
	go http.Serve(l, h)
	u, _ := url.Parse("ws://c05.invalid/")
	c, _, err := websocket.NewClient(cc, u, http.Header{}, 16480, 16480)
	if err != nil {
		close(l.stop)
		return
	}
	s := <-h.got
	close(l.stop)
	if s == nil {
		err = errors.New("upgrade failed")
		return
	}
	return &WebSocketConn{Conn: c}, &WebSocketConn{Conn: s}, c2s, s2c, nil
}

func c05S(fs []string, w interface{ WriteString(string) (int, error) }) {
	buflen, _ := strconv.Atoi(fs[2])
	segs := c05Ints(fs[3])
	trunc, _ := strconv.Atoi(fs[4])
	dir, _ := strconv.Atoi(fs[5])
	client, server, c2s, s2c, err := c05WsPair(segs)
	if err != nil {
		w.WriteString(fs[0] + " setup-failed:" + strings.ReplaceAll(err.Error(), " ", "_") + "\n")
		return
	}
	defer client.Close()
	defer server.Close()
	wr, rd, half := client, server, c2s
	if dir == 1 {
		wr, rd, half = server, client, s2c
	}
	half.mu.Lock()
	base := half.written
	half.mu.Unlock()
	var msgs [][]byte
	for _, ms := range fs[6:] {
		m := c05Msg(ms)
		msgs = append(msgs, m)
		if n, err := wr.Write(m); err != nil || n != len(m) {
			w.WriteString(fs[0] + " write-failed\n")
			return
		}
	}
	if trunc >= 0 {
		half.mu.Lock()
		half.limit = base + trunc
		half.cond.Broadcast()
		half.mu.Unlock()
	}
	out := make(chan string, 1)
	go func() {
		var sb strings.Builder
		buf := make([]byte, buflen)
		for range msgs {
			for j := range buf {
				buf[j] = 0xA5
			}
			n, err := rd.Read(buf)
			if err == nil {
				sb.WriteString(" ok:" + c05Repr(buf[:n]))
			} else if strings.HasPrefix(err.Error(), "nothing more is read") {
				sb.WriteString(" nm:" + strconv.Itoa(n))
			} else {
				sb.WriteString(" err:" + strconv.Itoa(n))
				break
			}
		}
		out <- sb.String()
	}()
	select {
	case s := <-out:
		w.WriteString(fs[0] + s + "\n")
	case <-time.After(20 * time.Second):
		w.WriteString(fs[0] + " timeout\n")
	}
}

func TestVerifC05(t *testing.T) {
	sc, w, done := vfIO(t)
	defer done()
	for sc.Scan() {
		fs := vfFields(sc.Text())
		if len(fs) < 2 {
			continue
		}
		switch fs[1] {
		case "X":
			c05X(fs, w)
		case "R":
			c05R(fs, w)
		case "C":
			c05C(fs, w)
		case "S":
			c05S(fs, w)
		}
	}
}
