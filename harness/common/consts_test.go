package common

import (
	"fmt"
	"net"
	"os"
	"testing"
)

type vfSink struct{ net.Conn }

func (vfSink) Write(b []byte) (int, error) { return len(b), nil }

func TestVerifConsts(t *testing.T) {
	out := os.Getenv("VERIF_OUT")
	if out == "" {
		t.Skip()
	}
	f, _ := os.Create(out)
	defer f.Close()
	p := func(n string, v interface{}) { fmt.Fprintf(f, "%s %d\n", n, v) }
	p("common_recordLayerLength", recordLayerLength)
	p("common_VersionTLS11", VersionTLS11)
	p("common_VersionTLS13", VersionTLS13)
	p("common_Handshake", Handshake)
	p("common_ApplicationData", ApplicationData)
	// the write limit of TLSConn.Write is a literal in the source: measure it
	c := NewTLSConn(vfSink{})
	lo, hi := 0, 1<<17 // Write(lo) succeeds, Write(hi) fails
	if _, err := c.Write(make([]byte, hi)); err == nil {
		p("common_tlsconn_write_limit", -1)
		return
	}
	for hi-lo > 1 {
		mid := (lo + hi) / 2
		if _, err := c.Write(make([]byte, mid)); err == nil {
			lo = mid
		} else {
			hi = mid
		}
	}
	p("common_tlsconn_write_limit", lo)
}
