package common

// C05 window driver: TWO writers on ONE connection adapter, writer A parked INSIDE the underlying
// connection's Write (the harness owns that connection: its j-th Write call blocks before it has
// taken the bytes, like a socket whose send buffer is full) while writer B calls Write.
//
//   WebSocketConn (client and server role): B must block until A has finished (the write mutex),
//     no second underlying Write may be entered while the first is parked, and the peer reads both
//     messages whole, A's first.
//   TLSConn: B is not serialised with A (each Write is ONE underlying Write, which is atomic), so B
//     completes; the wire must be B's record followed by A's record, each whole.
//
// "B has returned / is blocked on a mutex" is read off runtime.Stack, no grace period is involved.
//
// input : <id> WW <role c|s> <j> <lenA>:<tagA> <lenB>:<tagB>     (WebSocketConn, role = who writes)
//         <id> WT <j> <lenA>:<tagA> <lenB>:<tagB>                (TLSConn)
// output: <id> state=<N|L|D|C|?> a=<ok|err|panic..> b=<..> overlap=<n> writes=<n> reads=<tok,tok,..>
//   N: A's message needed fewer than j underlying writes (no park; the two writes ran in sequence)
//   overlap = underlying Write calls entered while another one was inside

import (
	"errors"
	"fmt"
	"net"
	"net/http"
	"net/url"
	"regexp"
	"runtime"
	"strconv"
	"strings"
	"sync"
	"sync/atomic"
	"testing"

	"github.com/gorilla/websocket"
)

var c05WinGoidRe = regexp.MustCompile(`^goroutine (\d+) \[`)

func c05WinGoid() int64 {
	var buf [64]byte
	n := runtime.Stack(buf[:], false)
	m := c05WinGoidRe.FindSubmatch(buf[:n])
	if m == nil {
		return -1
	}
	id, _ := strconv.ParseInt(string(m[1]), 10, 64)
	return id
}

var c05WinStackBuf = make([]byte, 1<<20)
var c05WinStackM sync.Mutex

func c05WinState(goid int64) string {
	c05WinStackM.Lock()
	defer c05WinStackM.Unlock()
	n := runtime.Stack(c05WinStackBuf, true)
	s := string(c05WinStackBuf[:n])
	key := "goroutine " + strconv.FormatInt(goid, 10) + " ["
	for i := 0; i < len(s); {
		j := strings.Index(s[i:], key)
		if j < 0 {
			return ""
		}
		j += i
		if j == 0 || s[j-1] == '\n' {
			e := strings.IndexByte(s[j+len(key):], ']')
			if e < 0 {
				return ""
			}
			return s[j+len(key) : j+len(key)+e]
		}
		i = j + 1
	}
	return ""
}

func c05WinSettle(goid int64, idle *atomic.Int32) string {
	for i := 0; i < 400000; i++ {
		if idle.Load() == 1 {
			return "D"
		}
		st := c05WinState(goid)
		if idle.Load() == 1 {
			return "D"
		}
		if strings.Contains(st, "Mutex") || strings.HasPrefix(st, "semacquire") {
			return "L"
		}
		moving := st == ""
		for _, p := range []string{"running", "runnable", "syscall", "copystack", "preempted", "GC ", "waiting"} {
			if strings.HasPrefix(st, p) {
				moving = true
			}
		}
		if !moving {
			return "C"
		}
		runtime.Gosched()
	}
	return "?"
}

// c05WinConn wraps the writer's end of the duplex connection
type c05WinConn struct {
	net.Conn
	mu      sync.Mutex
	parkAt  int // park the parkAt-th Write from now (0 = none)
	seen    int
	inside  int
	overlap int
	writes  int
	arrived chan struct{}
	release chan struct{}
}

func (c *c05WinConn) arm(j int) {
	c.mu.Lock()
	c.parkAt, c.seen, c.overlap, c.writes = j, 0, 0, 0
	c.arrived = make(chan struct{})
	c.release = make(chan struct{})
	c.mu.Unlock()
}

func (c *c05WinConn) Write(p []byte) (int, error) {
	c.mu.Lock()
	c.writes++
	if c.inside > 0 {
		c.overlap++
	}
	c.inside++
	park := false
	var arrived, release chan struct{}
	if c.parkAt > 0 {
		c.seen++
		if c.seen == c.parkAt {
			park, c.parkAt = true, 0
			arrived, release = c.arrived, c.release
		}
	}
	c.mu.Unlock()
	if park {
		close(arrived)
		<-release
	}
	// only now are the caller's bytes taken
	n, err := c.Conn.Write(p)
	c.mu.Lock()
	c.inside--
	c.mu.Unlock()
	return n, err
}

func c05WinWsPair() (client, server *WebSocketConn, cw, sw *c05WinConn, c2s, s2c *c05Half, err error) {
	c2s, s2c = newC05Half(nil), newC05Half(nil)
	cw = &c05WinConn{Conn: &c05Duplex{in: s2c, out: c2s}}
	sw = &c05WinConn{Conn: &c05Duplex{in: c2s, out: s2c}}
	h := &c05Handler{got: make(chan *websocket.Conn, 1)}
	l := &c05OnceListener{c: sw, stop: make(chan struct{})}
	go http.Serve(l, h)
	u, _ := url.Parse("ws://c05.invalid/")
	c, _, err := websocket.NewClient(cw, u, http.Header{}, 16480, 16480)
	if err != nil {
		close(l.stop)
		return
	}
	s := <-h.got
	close(l.stop)
	if s == nil {
		err = errors.New("upgrade failed")
		return
	}
	return &WebSocketConn{Conn: c}, &WebSocketConn{Conn: s}, cw, sw, c2s, s2c, nil
}

type c05WinThr struct {
	goid int64
	idle atomic.Int32
	goCh chan struct{}
	res  chan string
}

func c05WinStart(f func() (int, error), want int) *c05WinThr {
	t := &c05WinThr{goCh: make(chan struct{}), res: make(chan string, 1)}
	ready := make(chan int64)
	go func() {
		ready <- c05WinGoid()
		<-t.goCh
		r := func() (r string) {
			defer func() {
				if e := recover(); e != nil {
					r = "panic:" + strings.ReplaceAll(fmt.Sprint(e), " ", "_")
				}
			}()
			n, err := f()
			if err != nil || n != want {
				return fmt.Sprintf("err:%d", n)
			}
			return "ok"
		}()
		t.idle.Store(1)
		t.res <- r
	}()
	t.goid = <-ready
	return t
}

// runs the window on an armed connection; returns state, a, b
func c05WinRace(cw *c05WinConn, j int, wa, wb func() (int, error), la, lb int) (string, string, string) {
	cw.arm(j)
	arrived, release := cw.arrived, cw.release
	a := c05WinStart(wa, la)
	b := c05WinStart(wb, lb)
	close(a.goCh)
	select {
	case <-arrived:
		close(b.goCh)
		state := c05WinSettle(b.goid, &b.idle)
		close(release)
		ra := <-a.res
		return state, ra, <-b.res
	case ra := <-a.res:
		cw.mu.Lock()
		cw.parkAt = 0
		cw.mu.Unlock()
		close(b.goCh)
		return "N", ra, <-b.res
	}
}

func c05WinWW(fs []string) string {
	role := fs[2]
	j, _ := strconv.Atoi(fs[3])
	ma, mb := c05Msg(fs[4]), c05Msg(fs[5])
	client, server, cw, sw, c2s, s2c, err := c05WinWsPair()
	if err != nil {
		return fs[0] + " setup-failed:" + strings.ReplaceAll(err.Error(), " ", "_")
	}
	// a writer that panicked inside Write may have left the write mutex locked: do not wait for Close
	defer func() { go client.Close(); go server.Close() }()
	wr, rd, wc, half := client, server, cw, c2s
	if role == "s" {
		wr, rd, wc, half = server, client, sw, s2c
	}
	state, ra, rb := c05WinRace(wc, j, func() (int, error) { return wr.Write(ma) }, func() (int, error) { return wr.Write(mb) }, len(ma), len(mb))
	wc.mu.Lock()
	overlap, writes := wc.overlap, wc.writes
	wc.mu.Unlock()
	// whatever reached the wire is all there is: the reader must not be left waiting
	half.close()
	var reads []string
	buf := make([]byte, 1<<17)
	for i := 0; i < 4; i++ {
		tok := func() (tok string) {
			defer func() {
				if e := recover(); e != nil {
					tok = "panic"
				}
			}()
			n, err := rd.Read(buf)
			if err != nil {
				return "end"
			}
			return "ok:" + c05Repr(buf[:n])
		}()
		reads = append(reads, tok)
		if !strings.HasPrefix(tok, "ok:") {
			break
		}
	}
	return fmt.Sprintf("%s state=%s a=%s b=%s overlap=%d writes=%d reads=%s", fs[0], state, ra, rb, overlap, writes, strings.Join(reads, ","))
}

func c05WinWT(fs []string) string {
	j, _ := strconv.Atoi(fs[2])
	ma, mb := c05Msg(fs[3]), c05Msg(fs[4])
	rec := &c05Rec{}
	wc := &c05WinConn{Conn: rec}
	conn := NewTLSConn(wc)
	state, ra, rb := c05WinRace(wc, j, func() (int, error) { return conn.Write(ma) }, func() (int, error) { return conn.Write(mb) }, len(ma), len(mb))
	wc.mu.Lock()
	overlap, writes := wc.overlap, wc.writes
	wc.mu.Unlock()
	rec.mu.Lock()
	var chunks [][]byte
	for _, w := range rec.writes {
		chunks = append(chunks, w)
	}
	rec.mu.Unlock()
	reader := NewTLSConn(&c05Seg{chunks: chunks})
	var reads []string
	buf := make([]byte, 1<<15)
	for i := 0; i < 4; i++ {
		n, err := reader.Read(buf)
		if err != nil {
			reads = append(reads, "end")
			break
		}
		reads = append(reads, "ok:"+c05Repr(buf[:n]))
	}
	return fmt.Sprintf("%s state=%s a=%s b=%s overlap=%d writes=%d reads=%s", fs[0], state, ra, rb, overlap, writes, strings.Join(reads, ","))
}

func TestVerifC05Win(t *testing.T) {
	sc, w, done := vfIO(t)
	defer done()
	for sc.Scan() {
		fs := vfFields(sc.Text())
		if len(fs) < 5 {
			continue
		}
		res := func() (res string) {
			defer func() {
				if e := recover(); e != nil {
					res = fs[0] + " PANIC:" + strings.ReplaceAll(fmt.Sprint(e), " ", "_")
				}
			}()
			switch fs[1] {
			case "WW":
				return c05WinWW(fs)
			case "WT":
				return c05WinWT(fs)
			}
			return fs[0] + " ?"
		}()
		w.WriteString(res + "\n")
	}
}
