package common

// Relay driver, part 1: the real common.Copy between two scripted connections owned by the harness.
// The script dictates what every Read call returns (bytes + error) and what every Write call returns
// (count + error); the driver records the calls made on the two connections in order, with a COPY of
// every slice handed to Write taken at the moment of the call (so a buffer re-used too early shows).
//
// input lines (same as ocaml/relay_driver.ml):
//   <id> C <kind P|W|R> <dn> <reads> <writes>
//       reads  = r,r,..|-    r = <hex|->:<n|e|o>           (bytes returned, error nil / io.EOF / other)
//       writes = w,w,..|-    w = f<0|1> | n<count>:<0|1>    (full count / that count; error flag)
//       kind: P = neither connection offers WriteTo/ReadFrom, W = src is an io.WriterTo, R = dst is an io.ReaderFrom
// output: <id> <written> <nil|write|short|read|delegated|other> fuel=<0|1> left=<nreads>/<nwrites> <ev> ...
//       ev = R | W:<hex> | WT | RF | Cs | Cd

import (
	"errors"
	"fmt"
	"io"
	"net"
	"strconv"
	"strings"
	"testing"
	"time"
)

type rlRd struct {
	data []byte
	err  byte // 'n' 'e' 'o'
}
type rlWr struct {
	full  bool
	count int
	err   bool
}

var (
	errRlRead  = errors.New("relay driver: scripted read error")
	errRlWrite = errors.New("relay driver: scripted write error")
	errRlFuel  = errors.New("relay driver: script exhausted")
	errRlDeleg = errors.New("relay driver: delegate's error")
)

type rlLog struct {
	evs   []string
	reads []rlRd
	wrs   []rlWr
	fuel  bool
	pend  []byte // remainder of a scripted read that did not fit the caller's buffer
	pendE byte
}

type rlConn struct {
	log  *rlLog
	role string // "s" or "d"
}

func (c *rlConn) Read(p []byte) (int, error) {
	l := c.log
	if c.role != "s" {
		l.evs = append(l.evs, "R!dst")
		return 0, errRlFuel
	}
	var data []byte
	var e byte
	if l.pend != nil {
		data, e = l.pend, l.pendE
		l.pend = nil
	} else {
		if len(l.reads) == 0 {
			l.fuel = true
			return 0, errRlFuel
		}
		data, e = l.reads[0].data, l.reads[0].err
		l.reads = l.reads[1:]
	}
	l.evs = append(l.evs, "R")
	n := copy(p, data)
	if n < len(data) { // the caller's buffer is smaller than the scripted chunk: the rest comes next
		l.pend, l.pendE = data[n:], e
		return n, nil
	}
	switch e {
	case 'e':
		return n, io.EOF
	case 'o':
		return n, errRlRead
	}
	return n, nil
}

func (c *rlConn) Write(p []byte) (int, error) {
	l := c.log
	if c.role != "d" {
		l.evs = append(l.evs, "W!src")
		return 0, errRlFuel
	}
	l.evs = append(l.evs, "W:"+vfHex(append([]byte(nil), p...)))
	if len(l.wrs) == 0 {
		l.fuel = true
		return 0, errRlFuel
	}
	w := l.wrs[0]
	l.wrs = l.wrs[1:]
	n := w.count
	if w.full {
		n = len(p)
	}
	if w.err {
		return n, errRlWrite
	}
	return n, nil
}

func (c *rlConn) Close() error {
	c.log.evs = append(c.log.evs, "C"+c.role)
	return nil
}
func (c *rlConn) LocalAddr() net.Addr                { return nil }
func (c *rlConn) RemoteAddr() net.Addr               { return nil }
func (c *rlConn) SetDeadline(t time.Time) error      { return nil }
func (c *rlConn) SetReadDeadline(t time.Time) error  { return nil }
func (c *rlConn) SetWriteDeadline(t time.Time) error { return nil }

type rlConnWT struct {
	rlConn
	dn int64
}

func (c *rlConnWT) WriteTo(w io.Writer) (int64, error) {
	c.log.evs = append(c.log.evs, "WT")
	return c.dn, errRlDeleg
}

type rlConnRF struct {
	rlConn
	dn int64
}

func (c *rlConnRF) ReadFrom(r io.Reader) (int64, error) {
	c.log.evs = append(c.log.evs, "RF")
	return c.dn, errRlDeleg
}

func rlParseReads(s string) []rlRd {
	var out []rlRd
	if s == "-" {
		return out
	}
	for _, r := range strings.Split(s, ",") {
		i := strings.LastIndex(r, ":")
		out = append(out, rlRd{vfUnhex(r[:i]), r[i+1]})
	}
	return out
}

func rlParseWrites(s string) []rlWr {
	var out []rlWr
	if s == "-" {
		return out
	}
	for _, w := range strings.Split(s, ",") {
		if w[0] == 'f' {
			out = append(out, rlWr{full: true, err: w[1] == '1'})
		} else {
			i := strings.Index(w, ":")
			n, _ := strconv.Atoi(w[1:i])
			out = append(out, rlWr{count: n, err: w[i+1] == '1'})
		}
	}
	return out
}

func TestVerifRelayCopy(t *testing.T) {
	sc, w, done := vfIO(t)
	defer done()
	for sc.Scan() {
		f := vfFields(sc.Text())
		if len(f) != 6 || f[1] != "C" {
			continue
		}
		dn, _ := strconv.ParseInt(f[3], 10, 64)
		l := &rlLog{reads: rlParseReads(f[4]), wrs: rlParseWrites(f[5])}
		var src, dst net.Conn = &rlConn{l, "s"}, &rlConn{l, "d"}
		switch f[2] {
		case "W":
			src = &rlConnWT{rlConn{l, "s"}, dn}
		case "R":
			dst = &rlConnRF{rlConn{l, "d"}, dn}
		}
		var written int64
		var err error
		func() {
			defer func() {
				if r := recover(); r != nil {
					l.evs = append(l.evs, fmt.Sprintf("PANIC:%v", r))
				}
			}()
			written, err = Copy(dst, src)
		}()
		cls := "other"
		switch {
		case err == nil:
			cls = "nil"
		case err == errRlWrite:
			cls = "write"
		case err == io.ErrShortWrite:
			cls = "short"
		case err == errRlRead:
			cls = "read"
		case err == errRlDeleg:
			cls = "delegated"
		case err == errRlFuel:
			cls = "fuel"
		}
		nleft := len(l.reads)
		if l.pend != nil {
			nleft++
		}
		fmt.Fprintf(w, "%s %d %s fuel=%s left=%d/%d %s\n", f[0], written, cls, vfB(l.fuel), nleft, len(l.wrs), strings.Join(l.evs, " "))
	}
}

// ---- TLSConn's pass-through methods: each must reach the underlying connection as the same call, once, with the
// same argument, and nothing else (a read deadline that also arms the write deadline breaks later writes)
//
// input : <id> D     output: <id> SetDeadline=<calls> SetReadDeadline=<calls> SetWriteDeadline=<calls> Close=<calls>
//   calls = the calls seen by the underlying connection, joined by "+": d:<unix nanos> r:<..> w:<..> c
type rlDlConn struct {
	rlConn
	calls []string
}

func (c *rlDlConn) SetDeadline(t time.Time) error      { c.calls = append(c.calls, fmt.Sprintf("d:%d", t.UnixNano())); return nil }
func (c *rlDlConn) SetReadDeadline(t time.Time) error  { c.calls = append(c.calls, fmt.Sprintf("r:%d", t.UnixNano())); return nil }
func (c *rlDlConn) SetWriteDeadline(t time.Time) error { c.calls = append(c.calls, fmt.Sprintf("w:%d", t.UnixNano())); return nil }
func (c *rlDlConn) Close() error                       { c.calls = append(c.calls, "c"); return nil }

func TestVerifRelayDeadlines(t *testing.T) {
	sc, w, done := vfIO(t)
	defer done()
	for sc.Scan() {
		f := vfFields(sc.Text())
		if len(f) != 2 || f[1] != "D" {
			continue
		}
		u := &rlDlConn{rlConn: rlConn{&rlLog{}, "s"}}
		tc := NewTLSConn(u)
		take := func() string {
			s := strings.Join(u.calls, "+")
			u.calls = nil
			if s == "" {
				s = "-"
			}
			return s
		}
		t1, t2, t3 := time.Unix(1700000001, 11), time.Unix(1700000002, 22), time.Unix(1700000003, 33)
		tc.SetDeadline(t1)
		a := take()
		tc.SetReadDeadline(t2)
		b := take()
		tc.SetWriteDeadline(t3)
		c := take()
		tc.Close()
		d := take()
		// a record larger than the reader's buffer: an error for the caller, and NOTHING on the wire (Read never writes)
		lg := &rlLog{reads: []rlRd{{[]byte{0x17, 0x03, 0x03, 0x75, 0x30}, 'n'}, {make([]byte, 100), 'n'}}}
		u2 := &rlDlConn{rlConn: rlConn{lg, "s"}}
		n, rerr := NewTLSConn(u2).Read(make([]byte, 1024))
		rd := fmt.Sprintf("%d:%v:%s:%s", n, rerr == io.ErrShortBuffer, strings.Join(lg.evs, "+"), strings.Join(u2.calls, "+"))
		fmt.Fprintf(w, "%s SetDeadline=%s SetReadDeadline=%s SetWriteDeadline=%s Close=%s OversizeRead=%s\n", f[0], a, b, c, d, rd)
	}
}
